#!/usr/bin/env python3
"""Fingerprint of the source a property is anchored in (properties.jsonl anchors.files plus CONF['sources']), comments and
layout ignored.  `source_fingerprints.json` records the fingerprints of the tree the checks were last run and committed on;
the quick tier widens its exploration (more seeds) when the current source differs from it — the decision is only about how
much to explore, never about the verdict.   usage: fingerprint.py [--write]"""
import hashlib, json, os, re, sys
VERIF = os.path.dirname(os.path.dirname(os.path.abspath(__file__)))
sys.path.insert(0, os.path.join(VERIF, "tools"))
BASE = os.path.join(VERIF, "source_fingerprints.json")


def anchors():
    out = {}
    for l in open(os.path.join(VERIF, "properties.jsonl")):
        d = json.loads(l)
        out[d["id"]] = list(d.get("anchors", {}).get("files", []))
    return out


def normalise(text):
    text = re.sub(r"/\*.*?\*/", " ", text, flags=re.S)
    text = re.sub(r"(?m)^\s*//.*$", "", text)
    text = re.sub(r"\s+//[^\n\"`]*$", "", text, flags=re.M)
    return re.sub(r"\s+", " ", text).strip()


def fingerprint(pid, repo, extra=()):
    """Every non-test Go file and the schema files of the repository: a property's behaviour can depend on code outside the files
    it is anchored in, so the whole source decides (pid is kept in the interface for a finer rule later)."""
    h = hashlib.sha256()
    names = []
    for dp, ds, ns in os.walk(repo):
        ds[:] = [d for d in ds if d not in (".git", "vendor", "testdata")]
        for n in ns:
            if (n.endswith(".go") and not n.endswith("_test.go")) or (n.endswith(".json") and "schema" in dp) or n in ("go.mod",):
                names.append(os.path.join(dp, n))
    for n in sorted(names):
        h.update(os.path.relpath(n, repo).encode() + b"\0")
        try:
            h.update(normalise(open(n, errors="replace").read()).encode())
        except OSError:
            h.update(b"<missing>")
    return h.hexdigest()[:20]


def differs(pid, repo, extra=()):
    try:
        base = json.load(open(BASE))
    except (OSError, ValueError):
        return False
    return pid in base and base[pid] != fingerprint(pid, repo, extra)


if __name__ == "__main__":
    from propconf import PROPS
    repo = os.environ.get("VERIF_REPO", "/repo")
    cur = {pid: fingerprint(pid, repo, PROPS[pid].get("sources", ())) for pid in sorted(PROPS)}
    if "--write" in sys.argv:
        json.dump(cur, open(BASE, "w"), indent=1, sort_keys=True)
    print(json.dumps(cur, indent=1))
