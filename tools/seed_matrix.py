#!/usr/bin/env python3
"""Runs every seeded change (seeded/<id>/patch.diff) against the check of its property in a scratch worktree of /repo
(outside /repo and /verif), and writes seeded/MATRIX.json: which check reports a violation for which change.
usage: seed_matrix.py [seed-id ...]   (default: all)"""
import json, os, re, subprocess, sys, tempfile, time
VERIF = os.path.dirname(os.path.dirname(os.path.abspath(__file__)))
sys.path.insert(0, os.path.join(VERIF, "tools"))
from propconf import PROPS

def run_one(sid, pid, tier="quick"):
    wt = tempfile.mkdtemp(prefix="seedmx-%s-" % sid, dir="/tmp"); os.rmdir(wt)
    subprocess.run(["git", "-C", "/repo", "worktree", "add", "-q", "--detach", wt, "HEAD"], check=True)
    try:
        p = subprocess.run(["git", "-C", wt, "apply", os.path.join(VERIF, "seeded", sid, "patch.diff")], capture_output=True, text=True)
        if p.returncode != 0:
            return {"seed": sid, "property": pid, "result": "patch-does-not-apply", "detail": p.stderr[-300:]}
        t0 = time.time()
        env = dict(os.environ, VERIF_REPO=wt)
        p = subprocess.run([sys.executable, os.path.join(VERIF, "tools", "check.py"), pid, "--tier", tier], cwd=VERIF, env=env,
                           capture_output=True, text=True, timeout=3600)
        lines = [l for l in p.stdout.splitlines() if l.startswith("VIOLATION") or l.startswith("OK ")]
        res = "missed"
        kind = None
        if any(l.startswith("VIOLATION") for l in lines):
            res = "detected"
            kind = "no-failing-input-found" if all("no-failing-input-found" in l for l in lines if l.startswith("VIOLATION")) else "failing-input"
        return {"seed": sid, "property": pid, "result": res, "kind": kind, "exit": p.returncode, "wall_s": round(time.time() - t0, 1), "line": lines[-1] if lines else p.stdout[-300:]}
    finally:
        subprocess.run(["git", "-C", "/repo", "worktree", "remove", "--force", wt], capture_output=True)
        subprocess.run(["rm", "-rf", wt])
        for f in os.listdir(os.path.join(VERIF, "harness")):
            if f.startswith("alt_tmp_seedmx"):
                os.remove(os.path.join(VERIF, "harness", f))
        for f in os.listdir(os.path.join(VERIF, "harness", "bin")):
            if "_tmp_seedmx" in f:
                os.remove(os.path.join(VERIF, "harness", "bin", f))

def main():
    want = sys.argv[1:]
    seeds = sorted(d for d in os.listdir(os.path.join(VERIF, "seeded")) if re.match(r"C\d+-\w+$", d))
    out_path = os.path.join(VERIF, "seeded", "MATRIX.json")
    old = json.load(open(out_path)) if os.path.exists(out_path) else {}
    for sid in seeds:
        if want and sid not in want:
            continue
        pid = sid.split("-")[0]
        if pid not in PROPS:
            old[sid] = {"seed": sid, "property": pid, "result": "no-check-yet"}
            continue
        obs = os.path.join(VERIF, "seeded", sid, "OBSOLETE")
        if os.path.exists(obs):
            # a later repair of /repo made this change harmless (its demonstration passes with it): nothing to detect
            old[sid] = {"seed": sid, "property": pid, "result": "obsolete", "kind": None, "line": open(obs).read().strip()[:300]}
            print(sid, "obsolete", flush=True)
            continue
        r = run_one(sid, pid)
        print(sid, r["result"], r.get("kind"), r.get("wall_s"), flush=True)
        old[sid] = r
        json.dump(old, open(out_path, "w"), indent=1, sort_keys=True)
    json.dump(old, open(out_path, "w"), indent=1, sort_keys=True)

if __name__ == "__main__":
    main()
