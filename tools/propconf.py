"""Per-property configuration of the runner (tools/check.py): loaded from tools/props/Cxx.py (CONF)."""
import glob
import importlib.util
import os

TRUSTED_COMMON = [
    "Coq 8.16.1 kernel and its vm_compute bytecode VM (no native_compute)",
    "tools/check.py (runner), harness/ (Go: input generators, Go value -> Gallina printer, projection of observables)",
    "the hand-written Gallina model is tied to /repo only by the correspondence evaluated on this run's cases",
]


def _load():
    props, checks = {}, {}
    here = os.path.join(os.path.dirname(os.path.abspath(__file__)), "props")
    for path in sorted(glob.glob(os.path.join(here, "C*.py"))):
        pid = os.path.basename(path)[:-3]
        spec = importlib.util.spec_from_file_location("props_" + pid, path)
        mod = importlib.util.module_from_spec(spec)
        spec.loader.exec_module(mod)
        props[pid] = mod.CONF
        if getattr(mod, "CHECK", None):
            checks[pid] = mod.CHECK
    return props, checks


PROPS, CHECKS = _load()
