"""Per-property configuration of the runner (tools/check.py)."""

TRUSTED_COMMON = [
    "Coq 8.16.1 kernel and its vm_compute bytecode VM (no native_compute)",
    "tools/check.py (runner), harness/ (Go: input generators, Go value -> Gallina printer, projection of observables)",
    "the hand-written Gallina model is tied to /repo only by the correspondence evaluated on this run's cases",
]

PROPS = {
    "C07": {
        "judge": "CDI.Judge07.judge07 (corr07: model = observed; oracle07: grammar decision procedures on observed outputs)",
        "trusted": ["UTF-8 decoding never maps a byte >= 0x80 to an ASCII rune (the model is byte-level); swept by the harness"],
        "assumptions": ["Go strings are byte strings; for ... range decodes UTF-8"],
        "search": [(1001, "thorough")],
    },
    "C15": {
        "judge": "CDI.Judge15.judge15",
        "trusted": ["byte-level modelling of Go's rune iteration; the k8s regular expressions are modelled by explicit matchers, corresponded against the real matcher through the verif export hook"],
        "assumptions": ["Go map iteration order is irrelevant to the property: ParseAnnotations results are compared grouped per key and sorted"],
        "search": [(1001, "thorough")],
    },
    "C06": {
        "judge": "CDI.Judge06.judge06",
        "trusted": ["tools/gen_versions.py (regex translator of specs-go/version.go: version constants, validSpecVersions table, trivially false predicates)",
                    "golang.org/x/mod/semver is modelled only on vX.Y.Z triples (the table entries), checked by ver_order_on_table"],
        "assumptions": ["the bodies of requiresV040..V070 are hand-modelled and corresponded; the table and predicate attachment are regenerated"],
        "search": [(1001, "thorough")],
    },
}
