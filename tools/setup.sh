#!/bin/bash
# MANIFEST.setup_cmd: build the whole framework offline from files on disk.
set -e
cd "$(dirname "$0")/.."
export GOFLAGS=-mod=mod GOPROXY=off GOSUMDB=off GOTOOLCHAIN=local
python3 tools/regen.py
( cd coq
  files=$(ls theories/*.v gen/*.v props/*.v 2>/dev/null | sort)
  coq_makefile -f _CoqProject -o Makefile $files >/dev/null
  echo "$files" | tr ' ' '\n' | sed '/^$/d' > .filelist.tmp; python3 - <<'PY'
import os
cur="\n".join(l.strip() for l in open('.filelist.tmp') if l.strip())
open('.filelist','w').write(cur); os.remove('.filelist.tmp')
PY
  timeout 3000 make -j8 > .build.log 2>&1 || { tail -50 .build.log; exit 1; }
)
( cd harness
  cat /repo/go.sum /repo/schema/go.sum /repo/cmd/cdi/go.sum /repo/cmd/validate/go.sum /repo/specs-go/go.sum 2>/dev/null | sort -u > go.sum
  [ -f go.sum.extra ] && cat go.sum.extra >> go.sum
  go build -tags verif -o bin/vharness ./cmd/vharness
  # the race-detector build used by C12 (cgo + gcc are present); not fatal for the other checks if it fails
  go build -race -tags verif -o bin/vharness-race ./cmd/vharness || echo "warning: race build failed"
)
echo setup ok
