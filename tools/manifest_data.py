HOOK_COMMITS = ["278b705"]

NOT_APPLICABLE = {}

CHECKS = {
    "C07": {
        "text": "Theorems over all byte strings: the parser model succeeds iff the input is vendor/class=name in the grammar (parse_ok_iff, parse_err_iff), "
                "never panics, honours the error contract, recomposes and round-trips (compose_parse, QN_unique). The model is tied to pkg/parser by "
                "evaluating it inside Coq on every string up to length 3 (4 thorough) over a 12-symbol alphabet, on all 256 bytes at every position of "
                "every part, and on random mutated names, against the real functions; an independent brute-force decision procedure for the grammar "
                "(proved equivalent) is evaluated on the implementation's outputs as the oracle.",
        "note": "Trusted: Coq kernel + vm_compute; the Go harness and its printer; byte-level modelling of Go's rune iteration (bytes >= 0x80 never are allowed "
                "characters; swept). No axioms (Print Assumptions: closed under the global context).",
        "technique": "Coq proof (induction over strings, 256-way byte case analysis) + differential correspondence model/implementation via vm_compute",
    },
    "C15": {
        "text": "Theorems for all plugin names, device ids, device lists and maps: a returned key is under the CDI prefix and is a legal Kubernetes "
                "annotation key (key_is_legal, via a model of the k8s qualified-name matcher), a non-empty value splits back to exactly the requested devices "
                "(value_roundtrip), UpdateAnnotations is all-or-nothing, adds exactly one unused key and never overwrites (update_fail_unchanged, update_adds_one, "
                "never_overwrites), ParseAnnotations returns exactly the CDI-prefixed entries and fails with empty results iff a device is unqualified "
                "(parse_ok_iff, parse_unqualified_fails), update-then-parse round trip; nothing panics. Tied to pkg/cdi/annotations.go and to the real k8s matcher "
                "(through the verif export hook) by evaluating the model in Coq on generated keys (lengths 58..67, every character class per position), values, maps.",
        "note": "Trusted: Coq kernel + vm_compute; harness (grouping of ParseAnnotations' flat device list per key, sorting of maps); byte-level modelling of rune "
                "iteration; the three k8s regular expressions are modelled by explicit matchers and corresponded. No axioms.",
        "technique": "Coq proof (induction over strings/lists/association lists) + differential correspondence via vm_compute",
    },
    "C06": {
        "text": "Theorems for all Specs: the modelled requiredVersion over the version table REGENERATED from specs-go/version.go equals the highest introduction "
                "version among the features used anywhere (required_exact, each feature characterised by an existential over spec-level and every device's edits), "
                "is invariant under every permutation of the devices (required_perm, validate_version_perm), and ValidateVersion succeeds iff the declared "
                "version is released and not lower than the minimum (version_valid_iff); the generated table equals SPEC.md's and names only modelled predicates. "
                "The hand-modelled predicate bodies are tied to the code by evaluating the model on every single feature x placement x rotation x released version, "
                "feature subsets and odd declared version strings against MinimumRequiredVersion / ValidateVersion / cdi.ReadSpec.",
        "note": "Trusted: Coq kernel + vm_compute; tools/gen_versions.py (regex translator); harness and Spec -> Gallina printer; semver modelled on vX.Y.Z only. No axioms.",
        "technique": "Coq proof over a model whose version table is regenerated from source + differential correspondence via vm_compute",
    },
}
