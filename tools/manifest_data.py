from propconf import CHECKS  # noqa: F401  (per-property MANIFEST entries live in tools/props/Cxx.py)

HOOK_COMMITS = ["278b705", "161cb4f"]

# properties not claimed, with the reason (none planned: every property has an executable model)
NOT_APPLICABLE = {}
