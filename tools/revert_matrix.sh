#!/bin/bash
# Reverts every fix: commit of /repo in a scratch worktree and runs the check of the property it was found under.
cd "$(dirname "$0")/.."
OUT=seeded/REVERTS.txt; : > $OUT
while read c p what; do
  [ -z "$c" ] && continue
  r=$(tools/try_revert.sh $c $p 2>&1 | grep -E "^(VIOLATION|OK |revert failed)" | tail -1)
  echo "$c $p $what => $r" | tee -a $OUT
done <<'LIST'
3ca2778 C07 D1-single-letter-vendor-class-panic
3ca2778 C15 D1-single-letter-vendor-class-panic
372c189 C05 D2-null-list-entries-panic
372c189 C08 D2-null-list-entries-panic
f597d7e C01 D3-lower-conflict-hides-higher-device
16a3f37 C06 D4-version-checks-see-last-device-only
a071a8c C05 D5-typed-annotations-not-validated
e39386b C14 D6-cached-node-mutated-by-injection
df74ccb C13 D7-ENOTDIR-aborts-scan
824d7cd C11 D8-create-only-events-dropped
4c15c01 C11 D13-recreated-directory-unwatched
457a11b C12 D9-unsynchronised-reads
6c1c860 C17 D10-json-annotation-check-skipped
3ea124d C17 D11-yaml-float64-integers
3ea124d C18 D11-yaml-float64-integers
38edc74 C19 D12-spec-dirs-ignored
511ef72 C19 D14-resolve-ignores-spec-dirs
7b7999c C19 D15-specs-vendor-args-ignored
1320ea2 C08 D16-writespec-nil-panic
748fe15 C17 D17-none-schema-content-check
4537553 C01 D18-symlinked-spec-directory
c123eee C03 D19-env-variable-defined-twice
3105071 C09 D20-json-characters-the-reader-refuses
a8f5ac1 C17 D21-json-path-taken-for-a-url
26e4756 C17 D22-flow-yaml-taken-for-json
4610af1 C20 D23-straggler-watcher-goroutine
911e44b C11 D24-directory-renamed-away
a18d2db C11 D25-event-queue-overflow
081c096 C13 D26-refresh-does-not-rescan-in-auto-mode
702b770 C14 D27-oci-result-aliases-cache
fcec3d8 C13 D28-removed-symlinked-directory
f6b267f C09 D29-unreadable-yaml
f6b267f C18 D29-unreadable-yaml
LIST
