#!/bin/bash
# usage: try_seed.sh <seeded-id, e.g. C03-a> [property id (default: prefix of the seeded id)] [tier]
# Applies the seeded change to a scratch worktree of /repo (outside /repo and /verif), runs the property's check against it
# (VERIF_REPO), prints the last lines and removes the worktree again.
VERIF=$(cd "$(dirname "$0")/.." && pwd)
SID=$1; PID=${2:-${SID%%-*}}; TIER=${3:-quick}
WT=/tmp/seedtry-$SID-$$
git -C /repo worktree add -q --detach $WT HEAD || exit 2
trap 'git -C /repo worktree remove --force $WT 2>/dev/null; rm -rf $WT; rm -f $VERIF/harness/alt_tmp_seedtry*' EXIT
git -C $WT apply $VERIF/seeded/$SID/patch.diff || { echo "patch does not apply"; exit 2; }
cd $VERIF && VERIF_REPO=$WT timeout 3000 python3 tools/check.py $PID --tier $TIER 2>&1 | grep -v '^KNOWN-FINDING' | tail -4
