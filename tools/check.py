#!/usr/bin/env python3
"""Runner behind every quick_cmd / thorough_cmd / replay of MANIFEST.json.

  python3 tools/check.py Cxx [--tier quick|thorough] [--replay FILE]

For one property it (1) regenerates the generated model fragments from /repo, (2) re-checks the
property's theorems with coqc (full .vo build, Print Assumptions parsed), (3) builds the Go harness
against /repo's working tree with -tags verif, (4) lets the harness run the implementation on
generated inputs and emit Gallina case shards, (5) evaluates the shards with coqc/vm_compute using
the very definitions the theorems are about (correspondence bit and oracle bit per case),
(6) reports: exit 0, or `VIOLATION property=<id> replay=<path>` and exit 1, KNOWN-FINDING lines for
the findings listed in known_findings.json, and writes evidence/<id>.json.
"""
import argparse
import concurrent.futures
import fcntl
import glob
import json
import os
import re
import shutil
import subprocess
import sys
import tempfile
import time

VERIF = os.path.dirname(os.path.dirname(os.path.abspath(__file__)))
REPO = os.environ.get("VERIF_REPO", "/repo")
COQ = os.path.join(VERIF, "coq")
HARNESS = os.path.join(VERIF, "harness")
WORK = os.path.join(VERIF, ".work")

GOENV = dict(os.environ, GOFLAGS="-mod=mod", GOPROXY="off", GOSUMDB="off", GOTOOLCHAIN="local",
             CGO_ENABLED=os.environ.get("CGO_ENABLED", "1"))

sys.path.insert(0, os.path.join(VERIF, "tools"))
from propconf import PROPS, TRUSTED_COMMON  # noqa: E402


def log(*a):
    print(*a, file=sys.stderr, flush=True)


class Lock:
    def __init__(self, path):
        self.path = path

    def __enter__(self):
        os.makedirs(os.path.dirname(self.path), exist_ok=True)
        self.f = open(self.path, "w")
        fcntl.flock(self.f, fcntl.LOCK_EX)
        return self

    def __exit__(self, *a):
        fcntl.flock(self.f, fcntl.LOCK_UN)
        self.f.close()


def run(cmd, cwd=None, env=None, timeout=None, stdin=None):
    try:
        p = subprocess.run(cmd, cwd=cwd, env=env, timeout=timeout, input=stdin,
                           stdout=subprocess.PIPE, stderr=subprocess.STDOUT, text=True, errors="replace")
        return p.returncode, p.stdout
    except subprocess.TimeoutExpired as e:
        out = e.stdout if isinstance(e.stdout, str) else (e.stdout or b"").decode(errors="replace")
        return 124, out + "\nTIMEOUT after %ss" % timeout


# ---------------------------------------------------------------------------------------------
# 1. generated model fragments
def regen():
    """Run the translators; rewrite a gen/*.v only when its content changed."""
    rc, out = run([sys.executable, os.path.join(VERIF, "tools", "regen.py")], cwd=VERIF, timeout=300)
    return rc == 0, out


# ---------------------------------------------------------------------------------------------
# 2. Coq
def coq_makefile():
    vfiles = sorted(glob.glob(os.path.join(COQ, "theories", "*.v")) + glob.glob(os.path.join(COQ, "gen", "*.v")) +
                    glob.glob(os.path.join(COQ, "props", "*.v")))
    rel = [os.path.relpath(v, COQ) for v in vfiles]
    stamp = os.path.join(COQ, ".filelist")
    cur = "\n".join(rel)
    old = open(stamp).read() if os.path.exists(stamp) else None
    if old != cur or not os.path.exists(os.path.join(COQ, "Makefile")):
        rc, out = run(["coq_makefile", "-f", "_CoqProject", "-o", "Makefile"] + rel, cwd=COQ)
        if rc != 0:
            raise RuntimeError("coq_makefile failed: " + out)
        open(stamp, "w").write(cur)


def build_props(pid, timeout, judge=None):
    """(Re)compile props/<pid>.vo and everything it depends on. Returns (ok, log, n_print, closed, axioms).
    The judge module (CDI.JudgeNN.judgeNN) is not a dependency of the props file: it is brought up to date separately,
    so that the case shards are evaluated against the regenerated gen/*.v even when a proof no longer compiles."""
    target = "props/%s.vo" % pid
    with Lock(os.path.join(COQ, ".lock")):
        coq_makefile()
        for ext in (".vo", ".glob", ".vos", ".vok"):
            try:
                os.remove(os.path.join(COQ, "props", pid + ext))
            except FileNotFoundError:
                pass
        targets = [target]
        # the judge module evaluated by the case shards must be up to date with the model as well
        jm = re.match(r"CDI\.(\w+)\.", PROPS.get(pid, {}).get("judge", ""))
        if jm and os.path.exists(os.path.join(COQ, "theories", jm.group(1) + ".v")):
            targets.append("theories/%s.vo" % jm.group(1))
        rc, out = run(["make", "-j16", "-k"] + targets, cwd=COQ, timeout=timeout)
    src = open(os.path.join(COQ, "props", pid + ".v")).read()
    n_print = len(re.findall(r"^\s*Print Assumptions", src, re.M))
    closed = out.count("Closed under the global context")
    axioms = []
    for m in re.finditer(r"Axioms:\n((?:.+\n)+?)(?=\S|\Z)", out):
        for line in m.group(1).splitlines():
            mm = re.match(r"^(\S+)\s*:", line)
            if mm:
                axioms.append(mm.group(1))
    return rc == 0, out, n_print, closed, sorted(set(axioms))


FORBIDDEN = re.compile(r"(?:^|\.\s+|^\s+)(?:Local\s+|Global\s+|#\[[^\]]*\]\s*)?(Admitted|Axiom|Axioms|Parameter|Parameters|Conjecture|Admit Obligations|Unset Guard Checking|"
                       r"Unset Positivity Checking|Unset Universe Checking|Local Unset Guard Checking)\b|\badmit\.|bypass_check|"
                       r"-type-in-type|-impredicative-set", re.M)


def forbidden_vernacular():
    """Declarations that would add an axiom or switch off a kernel check, anywhere in the development (comments stripped)."""
    hits = []
    for v in sorted(glob.glob(os.path.join(COQ, "*", "*.v")) + [os.path.join(COQ, "_CoqProject")]):
        try:
            src = open(v, errors="replace").read()
        except OSError:
            continue
        # strip (nested) comments
        out, depth, i = [], 0, 0
        while i < len(src):
            if src.startswith("(*", i):
                depth += 1
                i += 2
            elif src.startswith("*)", i) and depth > 0:
                depth -= 1
                i += 2
            else:
                if depth == 0:
                    out.append(src[i])
                i += 1
        for m in FORBIDDEN.finditer("".join(out)):
            hits.append("%s: %s" % (os.path.relpath(v, COQ), m.group(0).strip()))
    return hits


def run_coqchk(pid, timeout=3000):
    """Independent re-check of props/<pid>.vo and everything it depends on; returns (ok, summary)."""
    with Lock(os.path.join(COQ, ".lock")):
        rc, out = run(["coqchk", "-silent", "-o", "-Q", "theories", "CDI", "-Q", "gen", "CDIGen", "-Q", "props", "CDIProps",
                       "CDIProps." + pid], cwd=COQ, timeout=timeout)
    m = re.search(r"CONTEXT SUMMARY.*", out, re.S)
    summary = re.sub(r"\s+", " ", m.group(0)) if m else out[-800:]
    ok = rc == 0 and "Axioms: <none>" in summary and "type-in-type: <none>" in summary and \
        "unsafe (co)fixpoints: <none>" in summary and "positivity is assumed: <none>" in summary
    return ok, summary


def failing_obligation(out):
    m = re.search(r'File "([^"]+)", line (\d+), characters [\d-]+:\s*\n\s*Error:\s*((?:.*\n?){1,12})', out)
    if m:
        return {"file": m.group(1), "line": int(m.group(2)), "error": m.group(3).strip()[:1500]}
    return {"file": None, "line": None, "error": out[-1500:]}


# ---------------------------------------------------------------------------------------------
# 3. harness
def build_harness(conf):
    with Lock(os.path.join(HARNESS, ".lock")):
        sums = set()
        for rel in ("go.sum", "schema/go.sum", "cmd/cdi/go.sum", "cmd/validate/go.sum", "specs-go/go.sum"):
            p = os.path.join(REPO, rel)
            if os.path.exists(p):
                sums.update(l for l in open(p).read().splitlines() if l.strip())
        extra = os.path.join(HARNESS, "go.sum.extra")
        if os.path.exists(extra):
            sums.update(l for l in open(extra).read().splitlines() if l.strip())
        open(os.path.join(HARNESS, "go.sum"), "w").write("\n".join(sorted(sums)) + "\n")
        binname = "vharness-race" if conf.get("race") else "vharness"
        modflags = []
        if os.path.abspath(REPO) != "/repo":
            # a scratch copy of the repository (mutation trials): alternate go.mod with the replaces pointing at it
            tag = re.sub(r"[^A-Za-z0-9]", "_", os.path.abspath(REPO))
            alt = os.path.join(HARNESS, "alt" + tag + ".mod")
            open(alt, "w").write(open(os.path.join(HARNESS, "go.mod")).read().replace("=> /repo", "=> " + os.path.abspath(REPO)))
            shutil.copy(os.path.join(HARNESS, "go.sum"), alt[:-4] + ".sum")
            modflags = ["-modfile=" + alt]
            binname += tag
        cmd = ["go", "build", "-tags", "verif"] + modflags + (["-race"] if conf.get("race") else []) + \
              ["-o", os.path.join("bin", binname), "./cmd/vharness"]
        rc, out = run(cmd, cwd=HARNESS, env=GOENV, timeout=900)
        extra_bins = {}
        if rc == 0:
            for name, mod in conf.get("repo_bins", {}).items():
                dst = os.path.join(HARNESS, "bin", name)
                rc2, out2 = run(["go", "build", "-o", dst, "."], cwd=os.path.join(REPO, mod), env=GOENV, timeout=900)
                if rc2 != 0:
                    return False, out2, None, {}
                extra_bins[name] = dst
        return rc == 0, out, os.path.join(HARNESS, "bin", binname), extra_bins


def run_harness(binpath, pid, seed, tier, outdir, scratch, only=None, extra_env=None, timeout=1800):
    cmd = [binpath, pid, "-seed", str(seed), "-tier", tier, "-out", outdir, "-scratch", scratch]
    if only is not None:
        cmd += ["-only", str(only)]
    env = dict(GOENV)
    env["VERIF_DIR"] = VERIF
    env["VERIF_REPO"] = REPO
    if extra_env:
        env.update(extra_env)
    return run(cmd, cwd=HARNESS, env=env, timeout=timeout)


# ---------------------------------------------------------------------------------------------
# 4. judging
def judge_shard(path, timeout):
    rc, out = run(["coqc", "-Q", os.path.join(COQ, "theories"), "CDI", "-Q", os.path.join(COQ, "gen"), "CDIGen",
                   "-w", "-all", os.path.basename(path)], cwd=os.path.dirname(path), timeout=timeout)
    m = re.search(r"verdict\s*=\s*\(\s*\[(.*?)\]\s*,\s*\[(.*?)\]\s*\)", out, re.S)
    if rc != 0 or not m:
        return None, None, out[-3000:]

    def nums(s):
        return [int(x) for x in re.findall(r"\d+", s)]
    return nums(m.group(1)), nums(m.group(2)), ""


def judge_all(outdir, meta, timeout):
    bad_corr, bad_oracle, errors = [], [], []
    with concurrent.futures.ThreadPoolExecutor(max_workers=int(os.environ.get("VERIF_JOBS", "6"))) as ex:
        futs = {ex.submit(judge_shard, os.path.join(outdir, sh["file"]), timeout): sh for sh in meta["shards"]}
        for fut, sh in futs.items():
            bc, bo, err = fut.result()
            if bc is None:
                errors.append({"shard": sh["file"], "error": err})
                continue
            bad_corr += [sh["first"] + i for i in bc]
            bad_oracle += [sh["first"] + i for i in bo]
    return sorted(bad_corr), sorted(bad_oracle), errors


def explore(pid, conf, binpath, seed, tier, workdir, only=None, extra_env=None):
    """harness + judges for one (seed, tier). Returns dict."""
    outdir = os.path.join(workdir, "cases-%s-%s" % (seed, tier) + ("" if only is None else "-only%d" % only))
    scratch = os.path.join(workdir, "scratch-%s-%s" % (seed, tier))
    shutil.rmtree(outdir, ignore_errors=True)
    os.makedirs(scratch, exist_ok=True)
    rc, out = run_harness(binpath, pid, seed, tier, outdir, scratch, only=only, extra_env=extra_env,
                          timeout=conf.get("harness_timeout", 900 if tier == "quick" else 3600))
    subprocess.run(["chmod", "-R", "u+rwx", scratch], stderr=subprocess.DEVNULL)
    shutil.rmtree(scratch, ignore_errors=True)
    if rc != 0:
        return {"error": "harness failed (rc=%s): %s" % (rc, out[-3000:])}
    meta = json.load(open(os.path.join(outdir, "meta.json")))
    bad_corr, bad_oracle, errors = judge_all(outdir, meta, conf.get("shard_timeout", 600))
    cases = {c["i"]: c for c in meta["cases"]}
    res = {"meta": meta, "bad_corr": bad_corr, "bad_oracle": bad_oracle, "judge_errors": errors, "cases": cases,
           "outdir": outdir, "harness_log": out[-2000:]}
    return res


# ---------------------------------------------------------------------------------------------
def load_known(pid):
    p = os.path.join(VERIF, "known_findings.json")
    if not os.path.exists(p):
        return {}
    data = json.load(open(p))
    return {e["id"]: e for e in data.get("findings", []) if e.get("property") == pid and e.get("status") == "open"}


def write_replay(pid, name, payload):
    d = os.path.join(VERIF, "replays", pid)
    os.makedirs(d, exist_ok=True)
    path = os.path.join(d, name)
    json.dump(payload, open(path, "w"), indent=1, ensure_ascii=False)
    return path


def smallest(cases, idxs):
    return min(idxs, key=lambda i: (len(json.dumps(cases[i].get("desc"))), i))


def main():
    ap = argparse.ArgumentParser()
    ap.add_argument("property")
    ap.add_argument("--tier", default=os.environ.get("VERIF_TIER") or "quick", choices=["quick", "thorough"])
    ap.add_argument("--replay")
    ap.add_argument("--keep", action="store_true", help="keep the work directory")
    args = ap.parse_args()
    pid = args.property
    conf = PROPS[pid]
    tier = args.tier
    try:
        seed = int(os.environ.get("VERIF_SEED") or 1)
    except ValueError:
        seed = 1
    t0 = time.time()
    os.makedirs(WORK, exist_ok=True)
    workdir = tempfile.mkdtemp(prefix=pid + "-", dir=WORK)
    code = 2
    try:
        code = check(pid, conf, tier, seed, workdir, args.replay, t0)
    finally:
        if not args.keep:
            subprocess.run(["chmod", "-R", "u+rwx", workdir], stderr=subprocess.DEVNULL)
            shutil.rmtree(workdir, ignore_errors=True)
    sys.exit(code)


def check(pid, conf, tier, seed, workdir, replay, t0):
    violations = []  # (replay_path, suffix)
    known_lines = []
    notes = []

    if replay:
        rp = json.load(open(replay))
        seed, tier = rp.get("seed", seed), rp.get("tier", tier)

    # -- model fragments regenerated from the source
    gen_ok, gen_log = regen()
    if not gen_ok:
        notes.append("translator failed: " + gen_log[-1500:])
    elif "translator" in gen_log and "failed" in gen_log:
        # a failed translator leaves a generated file that does not type-check: the properties that depend on it (and only
        # they) lose their proofs and their judge below
        notes.append("a model fragment could not be regenerated from the source (properties that do not depend on it are unaffected): " + gen_log[-1500:])

    # -- theorems
    proof_ok, coq_log, n_print, closed, axioms = build_props(pid, conf.get("coq_timeout", 1500), conf.get("judge"))
    proof_ok = proof_ok and gen_ok
    forbidden = forbidden_vernacular()
    if forbidden:
        proof_ok = False
        notes.append("forbidden vernacular in the development: " + "; ".join(forbidden[:10]))
    allowed = set(conf.get("allowed_axioms", []))
    bad_axioms = [a for a in axioms if a not in allowed]
    if proof_ok and (closed + (1 if axioms else 0) < 1 or bad_axioms):
        proof_ok = False
    coqchk_summary = None
    if proof_ok and tier == "thorough" and not replay:
        ck_ok, coqchk_summary = run_coqchk(pid)
        if not ck_ok:
            proof_ok = False
            notes.append("coqchk does not confirm the development axiom-free: " + coqchk_summary[:600])
    discharged = n_print if proof_ok else 0
    log("[%s] theorems: ok=%s obligations=%d closed=%d axioms=%s (%.1fs)" % (pid, proof_ok, n_print, closed, axioms, time.time() - t0))

    # -- harness
    h_ok, h_log, binpath, extra_bins = build_harness(conf)
    res = None
    if not h_ok:
        notes.append("harness does not build against /repo: " + h_log[-2000:])
    else:
        extra_env = {"VERIF_BIN_" + k.upper().replace("-", "_"): v for k, v in extra_bins.items()}
        if replay:
            only = rp.get("case_index")
            res = explore(pid, conf, binpath, seed, tier, workdir, only=only, extra_env=extra_env)
        else:
            res = explore(pid, conf, binpath, seed, tier, workdir, extra_env=extra_env)
        if "error" in res:
            notes.append(res["error"])
    log("[%s] exploration done (%.1fs)" % (pid, time.time() - t0))

    known = load_known(pid)
    corr_broken = False
    oracle_fail = []
    known_hits = {}
    judged = res is not None and "error" not in res
    if judged:
        cases = res["cases"]
        for i in res["bad_oracle"]:
            k = cases[i].get("known")
            if k and k in known:
                known_hits.setdefault(k, []).append(i)
            else:
                oracle_fail.append(i)
        # a case inside a known class is allowed to deviate from the property, never from the model
        corr_fail = list(res["bad_corr"])
        if corr_fail or res["judge_errors"]:
            corr_broken = True
    else:
        corr_broken = True
        cases = {}

    # -- the source differs from the tree the checks were last committed on: explore more widely before answering.  This only
    #    decides how much is explored (further seeds of the same generators), never the verdict.
    widened = []
    if judged and not oracle_fail and not corr_broken and proof_ok and not replay and tier == "quick" and h_ok:
        try:
            import fingerprint
            changed = fingerprint.differs(pid, REPO, conf.get("sources", ()))
        except Exception as exc:  # the fingerprint is an optimisation: never let it decide anything
            changed = False
            notes.append("source fingerprint not available: %r" % (exc,))
        if changed:
            budget = conf.get("widen_budget", 300)
            for s2 in conf.get("widen_seeds", [seed + 100, seed + 200]):
                if time.time() - t0 > budget:
                    break
                log("[%s] the source differs from the committed baseline: exploring seed=%s as well" % (pid, s2))
                r2 = explore(pid, conf, binpath, s2, tier, workdir, extra_env=extra_env)
                if "error" in r2:
                    notes.append("widened exploration seed %s: %s" % (s2, r2["error"][:300]))
                    continue
                widened.append({"seed": s2, "cases": r2["meta"].get("evaluations", len(r2["cases"]))})
                fails2 = [i for i in r2["bad_oracle"] if not (r2["cases"][i].get("known") in known)]
                if fails2 or r2["bad_corr"] or r2["judge_errors"]:
                    # continue with this exploration as the one to report from
                    res, cases = r2, r2["cases"]
                    oracle_fail = fails2
                    known_hits = {}
                    for i in r2["bad_oracle"]:
                        k = cases[i].get("known")
                        if k and k in known:
                            known_hits.setdefault(k, []).append(i)
                    if r2["bad_corr"] or r2["judge_errors"]:
                        corr_broken = True
                    break

    for k, idxs in sorted(known_hits.items()):
        known_lines.append("KNOWN-FINDING: property=%s %s: %s (%d cases this run, e.g. %s)" % (
            pid, k, known[k]["what"], len(idxs), json.dumps(cases[smallest(cases, idxs)]["desc"], ensure_ascii=False)[:300]))

    def report_case(res_, i, kind, tag=""):
        c = res_["cases"][i]
        payload = {"property": pid, "kind": kind, "seed": res_["meta"]["seed"], "tier": res_["meta"]["tier"],
                   "case_index": i, "case": c.get("desc"), "class": c.get("class"),
                   "how_to_replay": "python3 tools/check.py %s --replay <this file>" % pid,
                   "all_failing_indices": {"oracle": res_["bad_oracle"][:200], "correspondence": res_["bad_corr"][:200]}}
        return write_replay(pid, "%s-seed%s-%s-case%d%s.json" % (kind, res_["meta"]["seed"], res_["meta"]["tier"], i, tag), payload)

    if oracle_fail:
        i = smallest(cases, oracle_fail)
        violations.append((report_case(res, i, "property-fails"), ""))
    elif not proof_ok or corr_broken:
        # the property is no longer shown to hold: search for a concrete failing input
        found = None
        if h_ok and not replay:
            for k, (s2, t2) in enumerate(conf.get("search", [(seed + 1000, "thorough")])):
                if time.time() - t0 > conf.get("search_budget", 900):
                    break
                log("[%s] searching for a failing input: seed=%s tier=%s" % (pid, s2, t2))
                r2 = explore(pid, conf, binpath, s2, t2, workdir,
                             extra_env={"VERIF_BIN_" + k_.upper().replace("-", "_"): v for k_, v in extra_bins.items()})
                if "error" in r2:
                    continue
                fails = [i for i in r2["bad_oracle"] if not (r2["cases"][i].get("known") in known)]
                if fails:
                    found = report_case(r2, smallest(r2["cases"], fails), "property-fails", "-search")
                    break
        if found:
            violations.append((found, ""))
        else:
            what = {}
            if not proof_ok:
                if forbidden:
                    what["theorem_no_longer_checks"] = {"forbidden_vernacular": forbidden[:20]}
                elif bad_axioms:
                    what["theorem_no_longer_checks"] = {"unexpected_axioms": bad_axioms}
                elif coqchk_summary and "coqchk" in " ".join(notes):
                    what["theorem_no_longer_checks"] = {"coqchk": coqchk_summary[:800]}
                else:
                    what["theorem_no_longer_checks"] = failing_obligation(coq_log)
                what["props_file"] = "coq/props/%s.v" % pid
            if corr_broken:
                if judged and res["bad_corr"]:
                    j = smallest(cases, res["bad_corr"])
                    what["correspondence_no_longer_checks"] = {
                        "judge": conf.get("judge", "judge of " + pid), "n_cases_differing": len(res["bad_corr"]),
                        "first_differing_case": cases[j].get("desc"), "case_index": j,
                        "seed": res["meta"]["seed"], "tier": res["meta"]["tier"]}
                elif judged and res["judge_errors"]:
                    what["correspondence_no_longer_checks"] = {"judge_errors": res["judge_errors"][:3]}
                else:
                    what["correspondence_no_longer_checks"] = {"harness": notes[-1] if notes else "harness failed"}
            payload = {"property": pid, "kind": "no-failing-input-found", "seed": seed, "tier": tier, **what,
                       "note": "the model/proof or the model/implementation correspondence broke; the search over the model and the "
                               "implementation found no input on which the property itself fails"}
            if judged and res["bad_corr"]:
                payload["case_index"] = smallest(cases, res["bad_corr"])
            violations.append((write_replay(pid, "unproved-seed%s-%s.json" % (seed, tier), payload), " no-failing-input-found"))

    # -- evidence
    wall = time.time() - t0
    meta = res["meta"] if judged else {}
    cov = {
        "obligations": n_print,
        "discharged": discharged,
        "checker_cmd": "make -C coq props/%s.vo (coqc 8.16.1, full .vo build; Print Assumptions parsed); "
                       "coqc <cases_k.v> evaluating %s with vm_compute" % (pid, conf.get("judge", "the judge")),
        "trusted_base": TRUSTED_COMMON + conf.get("trusted", []),
        "axioms_reported_by_Print_Assumptions": axioms,
        "theorems_closed_under_global_context": closed,
        "theorems": re.findall(r"^\s*(?:Theorem|Lemma|Corollary)\s+(\w+)", open(os.path.join(COQ, "props", pid + ".v")).read(), re.M),
        "forbidden_vernacular_found": forbidden,
        "coqchk_summary": coqchk_summary,
        "evaluations": meta.get("evaluations", 0),
        "distinct_nontrivial": meta.get("distinct_nontrivial", 0),
        "distinct_inputs": meta.get("distinct", 0),
        "rule": meta.get("rule", ""),
        "samples": meta.get("samples", []),
        "input_distribution": meta.get("distribution", {}),
        "inputs_inside_known_finding_classes": meta.get("known_inputs", {}),
        "correspondence_mismatches": len(res["bad_corr"]) if judged else None,
        "oracle_failures": len(res["bad_oracle"]) if judged else None,
        "known_finding_hits": {k: len(v) for k, v in known_hits.items()},
        "traces_validated_against_impl": meta.get("evaluations", 0) if judged else 0,
        "exhaustive": bool(meta.get("exhaustive", False)),
        "notes": notes,
        "widened_exploration_because_source_changed": widened,
    }
    for k, v in meta.items():
        if k.startswith("x_"):
            cov[k[2:]] = v
    ev = {"property_id": pid, "tier": tier, "seed": seed, "level": "proof", "coverage": cov,
          "assumptions": conf.get("assumptions", []), "wall_s": round(wall, 2), "violations": len(violations)}
    # evidence describes runs against /repo itself; a run against a scratch copy (VERIF_REPO, mutation trials) keeps its
    # record under .work so that it never replaces the evidence of the real tree
    # (a replay evaluates one case: its record does not replace the evidence of a full run either)
    evdir = os.path.join(VERIF, "evidence") if os.path.abspath(REPO) == "/repo" and not replay else os.path.join(WORK, "evidence-scratch")
    os.makedirs(evdir, exist_ok=True)
    json.dump(ev, open(os.path.join(evdir, pid + ".json"), "w"), indent=1, ensure_ascii=False)

    for line in known_lines:
        print(line)
    for path, suffix in violations:
        print("VIOLATION property=%s replay=%s%s" % (pid, path, suffix))
    if not violations:
        print("OK property=%s tier=%s seed=%s theorems=%d/%d cases=%d nontrivial=%d wall=%.1fs" % (
            pid, tier, seed, discharged, n_print, cov["evaluations"], cov["distinct_nontrivial"], wall))
    sys.stdout.flush()
    return 1 if violations else 0


if __name__ == "__main__":
    main()
