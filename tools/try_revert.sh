#!/bin/bash
# usage: try_revert.sh <fix commit> <property id> [tier] -- reverts the commit in a scratch worktree and runs the check against it
VERIF=$(cd "$(dirname "$0")/.." && pwd)
C=$1; PID=$2; TIER=${3:-quick}
WT=/tmp/revtry-$C-$$
git -C /repo worktree add -q --detach $WT HEAD || exit 2
trap 'git -C /repo worktree remove --force $WT 2>/dev/null; rm -rf $WT; rm -f $VERIF/harness/alt_tmp_revtry*' EXIT
if ! git -C $WT revert --no-commit $C >/dev/null 2>&1; then
  # later repairs changed the same lines: take the reverted side of the conflicting hunks
  git -C $WT revert --abort >/dev/null 2>&1; git -C $WT reset -q --hard HEAD
  git -C $WT revert --no-commit -X theirs $C >/dev/null 2>&1 || { echo "revert failed"; exit 2; }
  ( cd $WT && GOFLAGS=-mod=mod GOPROXY=off GOSUMDB=off GOTOOLCHAIN=local go build ./... >/dev/null 2>&1 && cd schema && GOFLAGS=-mod=mod GOPROXY=off GOSUMDB=off GOTOOLCHAIN=local go build ./... >/dev/null 2>&1 ) || { echo "revert failed (does not build after resolving conflicts)"; exit 2; }
fi
cd $VERIF && VERIF_REPO=$WT timeout 3000 python3 tools/check.py $PID --tier $TIER 2>&1 | grep -v '^KNOWN-FINDING' | tail -3
