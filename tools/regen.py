#!/usr/bin/env python3
"""Regenerate coq/gen/*.v from /repo's current source. A file is rewritten only when its content changed."""
import os
import subprocess
import sys

VERIF = os.path.dirname(os.path.dirname(os.path.abspath(__file__)))
REPO = os.environ.get("VERIF_REPO", "/repo")
GEN = os.path.join(VERIF, "coq", "gen")


def write_if_changed(path, content):
    old = open(path).read() if os.path.exists(path) else None
    if old != content:
        open(path, "w").write(content)
        return True
    return False


def main():
    os.makedirs(GEN, exist_ok=True)
    ok = True
    for name in sorted(os.listdir(os.path.join(VERIF, "tools"))):
        if name.startswith("gen_") and name.endswith(".py"):
            p = subprocess.run([sys.executable, os.path.join(VERIF, "tools", name), REPO], stdout=subprocess.PIPE,
                               stderr=subprocess.PIPE, text=True)
            if p.returncode != 0:
                sys.stderr.write("translator %s failed:\n%s\n" % (name, p.stderr))
                print("translator %s failed: %s" % (name, p.stderr[-1500:]))
                ok = False
                continue
            # a translator prints: first line = target file name, rest = content
            target, _, content = p.stdout.partition("\n")
            write_if_changed(os.path.join(GEN, target.strip()), content)
    sys.exit(0 if ok else 1)


if __name__ == "__main__":
    main()
