#!/usr/bin/env python3
"""Writes seeded/<id>/meta.json for every seeded change that has notes.md and confirm.json but no meta.json yet
(title and texts are taken from the author's notes.md, the confirmation from tools/confirm_seed.sh's confirm.json)."""
import json, os, re, sys
VERIF = os.path.dirname(os.path.dirname(os.path.abspath(__file__)))
SD = os.path.join(VERIF, "seeded")
for sid in sorted(os.listdir(SD)):
    d = os.path.join(SD, sid)
    if not re.match(r"C\d+-\w+$", sid) or os.path.exists(os.path.join(d, "meta.json")) and "--force" not in sys.argv:
        continue
    if not (os.path.exists(os.path.join(d, "notes.md")) and os.path.exists(os.path.join(d, "confirm.json"))):
        print("skipped (incomplete):", sid)
        continue
    notes = open(os.path.join(d, "notes.md")).read()
    conf = json.load(open(os.path.join(d, "confirm.json")))
    lines = [l for l in notes.splitlines() if l.strip()]
    title = lines[0].lstrip("# ").strip() if lines else sid
    needs = ""
    m = re.search(r"^#+[^\n]*(needs|manifest|trigger)[^\n]*\n(.*?)(?=^#+ |\Z)", notes, re.S | re.M | re.I)
    if m:
        needs = m.group(2).strip()[:1200]
    meta = {
        "id": sid, "breaks_property": sid.split("-")[0], "title": title, "what_breaks": notes[:1500], "needs_to_manifest": needs,
        "demonstration": {"file": "demo_test.go", "package_dir": conf.get("demo_package"), "go_test_run": conf.get("demo_run")},
        "confirmed_by_me": {"how": "tools/confirm_seed.sh: scratch worktree of /repo under /tmp; patch applied; all five modules build; existing suite run unedited; demo run with and without the change",
                            "suite_with_change": conf.get("suite_with_change"), "demo_without_change_rc": conf.get("demo_without_change_rc"),
                            "demo_with_change_rc": conf.get("demo_with_change_rc"), "confirmed": conf.get("confirmed")},
        "files": sorted(f for f in os.listdir(d) if f != "meta.json"),
    }
    json.dump(meta, open(os.path.join(d, "meta.json"), "w"), indent=1)
    print("wrote", sid)
