#!/usr/bin/env python3
"""Mechanical mutants of /repo's source as a measure of what the checks notice, independent of the seeded changes people wrote.

For every mutant (one small syntactic change of one line of a non-test Go file): a scratch worktree of /repo under /tmp, the
change applied, all modules built, the repository's own test suite run unedited (tools/suite.sh).  A mutant that does not
build, or that the existing suite already catches, is of no interest here.  For a survivor the quick checks of the properties
anchored in the mutated file (properties.jsonl anchors.files) are run against the scratch copy (VERIF_REPO); the outcome is
appended to seeded/MUTANTS.jsonl.  An undetected survivor is either equivalent (the change does not alter behaviour the
properties speak of) or a gap in a generator — each one is to be looked at by hand.

usage: mutation_campaign.py --files pkg/cdi/cache.go,pkg/parser/parser.go [--max 40] [--seed 1] [--props C01,C13]
"""
import argparse, json, os, random, re, subprocess, sys, tempfile, time

VERIF = os.path.dirname(os.path.dirname(os.path.abspath(__file__)))
OUT = os.path.join(VERIF, "seeded", "MUTANTS.jsonl")
GOENV = dict(os.environ, GOFLAGS="-mod=mod", GOPROXY="off", GOSUMDB="off", GOTOOLCHAIN="local")

# (name, regex, replacement) applied to one occurrence on one line
OPERATORS = [
    ("eq->ne", r"(?<![=!<>:])==(?!=)", "!="),
    ("ne->eq", r"!=", "=="),
    ("lt->le", r"(?<![<-])<(?![=<-])", "<="),
    ("le->lt", r"<=", "<"),
    ("gt->ge", r"(?<![->])>(?![=>])", ">="),
    ("ge->gt", r">=", ">"),
    ("and->or", r"&&", "||"),
    ("or->and", r"\|\|", "&&"),
    ("true->false", r"\btrue\b", "false"),
    ("false->true", r"\bfalse\b", "true"),
    ("plus1->plus0", r"\+ 1\b", "+ 0"),
    ("minus1->minus0", r"- 1\b", "- 0"),
    ("0->1", r"(?<![\w.\"])0(?![\w.x\"])", "1"),
    ("nil-check-flip", r"== nil", "!= nil"),
    ("not-removed", r"!(?=[\w(])", ""),
    ("continue->break", r"\bcontinue\b", "break"),
    ("return-nil-for-err", r"\breturn err\b", "return nil"),
    ("len>0 -> len>1", r"(len\([^)]*\)) > 0", r"\1 > 1"),
]
# whole-line deletions of simple statements
DELETABLE = re.compile(r"^\s*(delete\(.*\)|[\w.\[\]\"]+(\[[^\]]*\])? (=|\+=) .*|[\w.]+\.(Lock|Unlock|RLock|RUnlock)\(\)|defer .*|[\w.]+ = append\(.*\))\s*$")


def anchors():
    m = {}
    for l in open(os.path.join(VERIF, "properties.jsonl")):
        d = json.loads(l)
        for f in d.get("anchors", {}).get("files", []):
            m.setdefault(f, []).append(d["id"])
    return m


def candidates(path, text):
    out = []
    in_block_comment = False
    in_import = False
    for i, line in enumerate(text.split("\n")):
        s = line.strip()
        if in_block_comment:
            if "*/" in s:
                in_block_comment = False
            continue
        if s.startswith("/*"):
            in_block_comment = "*/" not in s
            continue
        if s.startswith("//") or not s:
            continue
        if s.startswith("import ("):
            in_import = True
            continue
        if in_import:
            if s == ")":
                in_import = False
            continue
        if s.startswith(("import ", "package ", "func ", "type ", "//go:")) and not s.endswith("{") or "verifPoint(" in s or "verifEvent(" in s:
            continue
        code = line.split(" //")[0]
        # string and rune literals are masked: messages and characters are not mutated
        code_for_ops = re.sub(r'"(?:[^"\\]|\\.)*"', lambda m_: '"' + "_" * (len(m_.group(0)) - 2) + '"', code)
        code_for_ops = re.sub(r"'(?:[^'\\]|\\.)+'", lambda m_: "'" + "_" * (len(m_.group(0)) - 2) + "'", code_for_ops)
        for name, rx, rep in OPERATORS:
            for m_ in re.finditer(rx, code_for_ops):
                new = code[:m_.start()] + re.sub(rx, rep, code[m_.start():m_.end()]) + code[m_.end():] + line[len(code):]
                if new != line:
                    out.append((i, name, new))
        if DELETABLE.match(code):
            out.append((i, "delete-statement", re.match(r"^\s*", line).group(0) + "// mutant: statement removed"))
    return out


def run(cmd, cwd=None, env=None, timeout=3600):
    p = subprocess.run(cmd, cwd=cwd, env=env or GOENV, stdout=subprocess.PIPE, stderr=subprocess.STDOUT, text=True, timeout=timeout)
    return p.returncode, p.stdout


def module_of(path):
    for m in ("cmd/cdi", "cmd/validate", "schema", "specs-go"):
        if path.startswith(m + "/"):
            return m
    return "."


def main():
    ap = argparse.ArgumentParser()
    ap.add_argument("--files", required=True)
    ap.add_argument("--max", type=int, default=40)
    ap.add_argument("--seed", type=int, default=1)
    ap.add_argument("--props", default="")
    args = ap.parse_args()
    rnd = random.Random(args.seed)
    anc = anchors()
    done = set()
    if os.path.exists(OUT):
        for l in open(OUT):
            try:
                d = json.loads(l)
                done.add((d["file"], d["line"], d["operator"], d["mutated_line"]))
            except ValueError:
                pass
    pool = []
    for f in args.files.split(","):
        text = open(os.path.join("/repo", f)).read()
        for (i, name, new) in candidates(f, text):
            pool.append((f, i, name, new))
    rnd.shuffle(pool)
    n = 0
    for (f, i, name, new) in pool:
        if n >= args.max:
            break
        if (f, i + 1, name, new.strip()) in done:
            continue
        props = [p for p in args.props.split(",") if p] or sorted(set(anc.get(f, [])))
        wt = tempfile.mkdtemp(prefix="mutant-", dir="/tmp")
        os.rmdir(wt)
        subprocess.run(["git", "-C", "/repo", "worktree", "add", "-q", "--detach", wt, "HEAD"], check=True)
        rec = {"file": f, "line": i + 1, "operator": name, "mutated_line": new.strip(), "props": props}
        try:
            lines = open(os.path.join(wt, f)).read().split("\n")
            rec["original_line"] = lines[i].strip()
            lines[i] = new
            open(os.path.join(wt, f), "w").write("\n".join(lines))
            ok = True
            for m in (".", "cmd/cdi", "cmd/validate", "schema", "specs-go"):
                rc, out = run(["go", "build", "./..."], cwd=os.path.join(wt, m), timeout=600)
                if rc != 0:
                    ok = False
                    break
            if ok:
                rc, out = run(["go", "vet", "./..."], cwd=os.path.join(wt, module_of(f)), timeout=600)
                # vet failures (e.g. unreachable code, self-assignment) mark mutants nobody would commit
                if rc != 0 and ("unreachable" in out or "self-assignment" in out or "unusedresult" in out):
                    ok = False
            if not ok:
                rec["result"] = "does-not-build"
            else:
                rc, out = run([os.path.join(VERIF, "tools", "suite.sh"), wt], timeout=3000)
                first = out.split("\n")[0]
                rec["suite"] = first[:200]
                if not first.startswith("pass 210 fail 0"):
                    rec["result"] = "killed-by-existing-suite"
                else:
                    n += 1
                    rec["result"] = "survivor"
                    rec["checks"] = {}
                    for p in props:
                        t0 = time.time()
                        rc, out = run([sys.executable, os.path.join(VERIF, "tools", "check.py"), p], cwd=VERIF,
                                      env=dict(os.environ, VERIF_REPO=wt), timeout=3600)
                        lines_ = [l for l in out.split("\n") if l.startswith("VIOLATION") or l.startswith("OK ")]
                        verdict = "missed"
                        if any(l.startswith("VIOLATION") for l in lines_):
                            verdict = "detected" + (" (no-failing-input-found)" if all("no-failing-input-found" in l for l in lines_ if l.startswith("VIOLATION")) else "")
                        rec["checks"][p] = {"verdict": verdict, "wall_s": round(time.time() - t0, 1)}
                    rec["detected_by_any"] = any(v["verdict"].startswith("detected") for v in rec["checks"].values())
        finally:
            subprocess.run(["git", "-C", "/repo", "worktree", "remove", "--force", wt], capture_output=True)
            subprocess.run(["rm", "-rf", wt])
            for d_, pat in ((os.path.join(VERIF, "harness"), "alt_tmp_mutant"), (os.path.join(VERIF, "harness", "bin"), "_tmp_mutant")):
                for x in (os.listdir(d_) if os.path.isdir(d_) else []):
                    if pat in x:
                        try:
                            os.remove(os.path.join(d_, x))
                        except OSError:
                            pass
        with open(OUT, "a") as fh:
            fh.write(json.dumps(rec) + "\n")
        print(json.dumps({k: rec[k] for k in ("file", "line", "operator", "result") if k in rec} | {"checks": rec.get("checks")}), flush=True)


if __name__ == "__main__":
    main()
