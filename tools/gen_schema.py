#!/usr/bin/env python3
"""schema/schema.json + schema/defs.json -> coq/gen/SchemaGen.v : the shipped JSON schema as a closed term of
CDI.Schema.schema.

  gen_schema.py <repo>            prints "SchemaGen.v" and then the file (protocol of tools/regen.py)
  gen_schema.py --term <file>     prints one closed Gallina term for the schema rooted at <file> ($ref inlined);
                                  used by the C17 harness for the variant schemas it loads with schema.Load(path)

Translation rules (JSON-Schema draft-07):
  * a schema is an object or a boolean; `true`/`false` become SBool;
  * an object with "$ref": every sibling is ignored (draft-07 section 8.3); the reference is resolved against the file
    that contains it (relative file part, JSON pointer fragment) and replaced by its target; a reference cycle is a
    translator FAILURE (exit 1); a reference that cannot be resolved becomes SUnsupported (gojsonschema refuses to
    compile such a schema, so the model must not claim anything about it);
  * modelled keywords: type, properties, required, items (single schema), patternProperties (patterns .{n,} .+ .*),
    additionalProperties, minimum, maximum (integral bounds);
  * every other keyword of the draft-07 vocabulary makes the node SUnsupported "<keyword>";
  * annotation keywords (title, description, default, examples, $schema, $comment, readOnly, writeOnly, definitions)
    and names outside the vocabulary (such as the shipped file's misspelt "ref") have no effect on validation and
    are dropped, as draft-07 prescribes.
"""
import json
import os
import re
import sys
from decimal import Decimal
from urllib.parse import unquote

ANNOTATIONS = {"title", "description", "default", "examples", "$schema", "$comment", "readOnly", "writeOnly", "definitions"}
MODELLED = {"type", "properties", "required", "items", "patternProperties", "additionalProperties", "minimum", "maximum"}
# the rest of the draft-07 vocabulary (core, validation, applicators, format, content)
VOCABULARY = {
    "$id", "$ref", "enum", "const", "multipleOf", "exclusiveMaximum", "exclusiveMinimum", "maxLength", "minLength",
    "pattern", "additionalItems", "maxItems", "minItems", "uniqueItems", "contains", "maxProperties", "minProperties",
    "dependencies", "propertyNames", "if", "then", "else", "allOf", "anyOf", "oneOf", "not", "format",
    "contentMediaType", "contentEncoding",
} | MODELLED | ANNOTATIONS
TYPES = {"object": "TObject", "array": "TArray", "string": "TString", "integer": "TInteger", "number": "TNumber",
         "boolean": "TBoolean", "null": "TNull"}


class Fail(Exception):
    pass


def coq_string(s):
    return '"' + s.replace('"', '""') + '"'


def coq_z(n):
    return "(%d)%%Z" % n if n < 0 else "%d%%Z" % n


def coq_list(items):
    return "[" + "; ".join(items) + "]"


def coq_opt(x):
    return "None" if x is None else "(Some %s)" % x


class Translator:
    def __init__(self, named):
        self.files = {}
        self.named = named          # True: every $ref target becomes a Definition; False: targets are inlined
        self.defs = {}              # (file, pointer) -> (name, term), in dependency order
        self.in_progress = []

    def load(self, path):
        path = os.path.realpath(path)
        if path not in self.files:
            try:
                with open(path, "rb") as f:
                    self.files[path] = json.loads(f.read().decode("utf-8"), parse_float=Decimal)
            except (OSError, ValueError):
                self.files[path] = Fail
        return path, self.files[path]

    def unsupported(self, what):
        return "(SUnsupported %s)" % coq_string(what)

    def resolve(self, ref, cur_file):
        """-> (file, pointer, node) or None when the reference cannot be resolved"""
        if not isinstance(ref, str):
            return None
        fpart, sep, frag = ref.partition("#")
        if "://" in fpart:
            return None
        path = cur_file if fpart == "" else os.path.join(os.path.dirname(cur_file), unquote(fpart))
        path, doc = self.load(path)
        if doc is Fail:
            return None
        frag = unquote(frag)
        if frag != "" and not frag.startswith("/"):
            return None
        node = doc
        if frag:
            for tok in frag[1:].split("/"):
                tok = tok.replace("~1", "/").replace("~0", "~")
                if isinstance(node, dict) and tok in node:
                    node = node[tok]
                elif isinstance(node, list) and re.fullmatch(r"0|[1-9][0-9]*", tok) and int(tok) < len(node):
                    node = node[int(tok)]
                else:
                    return None
        return path, frag, node

    def ref_name(self, path, frag):
        stem = re.sub(r"[^A-Za-z0-9]", "_", os.path.splitext(os.path.basename(path))[0])
        last = re.sub(r"[^A-Za-z0-9]", "_", frag.split("/")[-1]) if frag else "root"
        base = "%s_%s" % (stem, last)
        name, k = base, 1
        used = {n for n, _ in self.defs.values()}
        while name in used:
            k += 1
            name = "%s_%d" % (base, k)
        return name

    def schema(self, node, cur_file):
        if node is True:
            return "(SBool true)"
        if node is False:
            return "(SBool false)"
        if not isinstance(node, dict):
            raise Fail("a schema must be an object or a boolean, found %r" % (node,))
        if "$ref" in node:
            r = self.resolve(node["$ref"], cur_file)
            if r is None:
                return self.unsupported("unresolvable $ref " + str(node["$ref"]))
            path, frag, target = r
            key = (path, frag)
            if key in self.in_progress:
                raise Fail("reference cycle through %s#%s" % (os.path.basename(path), frag))
            if self.named and key in self.defs:
                return self.defs[key][0]
            self.in_progress.append(key)
            try:
                term = self.schema(target, path)
            finally:
                self.in_progress.pop()
            if not self.named:
                return term
            name = self.ref_name(path, frag)
            self.defs[key] = (name, term)
            return name
        for kw in node:
            if kw in VOCABULARY and kw not in MODELLED and kw not in ANNOTATIONS:
                return self.unsupported(kw)
        ty = None
        if "type" in node:
            t = node["type"]
            ts = [t] if isinstance(t, str) else t
            if not isinstance(ts, list) or not ts or any(not isinstance(x, str) or x not in TYPES for x in ts):
                return self.unsupported("type (malformed)")
            ty = coq_list([TYPES[x] for x in ts])
        props = []
        if "properties" in node:
            if not isinstance(node["properties"], dict):
                return self.unsupported("properties (malformed)")
            for k, v in node["properties"].items():
                props.append("(%s, %s)" % (coq_string(k), self.schema(v, cur_file)))
        req = []
        if "required" in node:
            if not isinstance(node["required"], list) or any(not isinstance(x, str) for x in node["required"]):
                return self.unsupported("required (malformed)")
            req = [coq_string(x) for x in node["required"]]
        items = None
        if "items" in node:
            if isinstance(node["items"], list):
                return self.unsupported("items (array form)")
            items = self.schema(node["items"], cur_file)
        pats = []
        if "patternProperties" in node:
            if not isinstance(node["patternProperties"], dict):
                return self.unsupported("patternProperties (malformed)")
            for p, v in node["patternProperties"].items():
                m = re.fullmatch(r"\.\{(\d+),\}", p)
                if m and int(m.group(1)) <= 1000:
                    n = int(m.group(1))
                elif p == ".+":
                    n = 1
                elif p == ".*":
                    n = 0
                else:
                    return self.unsupported("patternProperties pattern " + p)
                pats.append("(PMin %d, %s)" % (n, self.schema(v, cur_file)))
        addl = None
        if "additionalProperties" in node:
            addl = self.schema(node["additionalProperties"], cur_file)
        bounds = []
        for kw in ("minimum", "maximum"):
            if kw not in node:
                bounds.append(None)
                continue
            v = node[kw]
            if isinstance(v, bool) or not isinstance(v, (int, Decimal)):
                return self.unsupported(kw + " (malformed)")
            if isinstance(v, Decimal):
                if not v.is_finite() or v != v.to_integral_value():
                    return self.unsupported(kw + " (non-integral bound)")
                v = int(v)
            bounds.append(coq_z(v))
        return "(SNode %s %s %s %s %s %s %s %s)" % (coq_opt(ty), coq_list(props), coq_list(req), coq_opt(items),
                                                  coq_list(pats), coq_opt(addl), coq_opt(bounds[0]), coq_opt(bounds[1]))

    def root(self, path):
        path, doc = self.load(path)
        if doc is Fail:
            raise Fail("cannot read or parse " + path)
        self.in_progress.append((path, ""))
        return self.schema(doc, path)


def main():
    try:
        if len(sys.argv) == 3 and sys.argv[1] == "--term":
            t = Translator(named=False)
            sys.stdout.write(t.root(sys.argv[2]) + "\n")
            return
        repo = sys.argv[1]
        t = Translator(named=True)
        term = t.root(os.path.join(repo, "schema", "schema.json"))
    except Fail as e:
        sys.exit("gen_schema.py: " + str(e))
    out = ["SchemaGen.v",
           "(* GENERATED by tools/gen_schema.py from schema/schema.json and schema/defs.json — do not edit *)",
           "From Coq Require Import String List ZArith.",
           "From CDI Require Import Schema.",
           "Import ListNotations.",
           "Open Scope string_scope.",
           ""]
    names = []
    for (path, frag), (name, dterm) in t.defs.items():
        out.append("(* %s#%s *)" % (os.path.basename(path), frag))
        out.append("Definition %s : schema :=\n  %s." % (name, dterm))
        names.append(name)
    out.append("(* schema.json *)")
    out.append("Definition builtin : schema :=\n  %s." % term)
    out.append("")
    out.append("(* the $ref targets, by name *)")
    out.append("Definition ref_targets : list (string * schema) := %s." %
               coq_list(["(%s, %s)" % (coq_string(n), n) for n in names]))
    sys.stdout.write("\n".join(out) + "\n")


if __name__ == "__main__":
    main()
