"""Runner configuration (CONF) and MANIFEST entry (CHECK) of property C05."""

CONF = {
    'judge': 'CDI.Judge05.judge05',
    'trusted': ['tools/gen_consts.py (regex translator): hook stages, device node types, permission characters, closID rule, annotation size / name-length limits are regenerated from the source on every run (gen/ConstGen.v), proved equal to the model\'s and WF\'s constants (C05_constants_tie) and probed value by value by the harness (coq/gen/consts.json)',
                'the text layer bytes <-> document tree (yaml.v2 scanner inside sigs.k8s.io/yaml, yaml.v3 emitter, encoding/json scanner) is '
                'third-party code and is not modelled: it is exercised on every case (real files are written and read), the theorems start at the '
                'document tree `doc`',
                'harness: Spec/document generators, the Go value -> Gallina `doc` printer (re-decodes the bytes it wrote; members sorted by name; '
                'numbers by value), projection of the three entry points to accepted / rejected / panicked',
                'modelled rather than verified, corresponded on every run: encoding/json struct decoding rules incl. member-name folding, '
                'sigs.k8s.io/yaml scalar-to-string coercion, strings.ToLower on annotation keys, the k8s qualified-name regular expressions, '
                'golang.org/x/mod/semver on the released table (C06)'],
    'assumptions': ['documents with two members naming the same field under different spellings (case-variant duplicates: encoding/json keeps the last one) are outside the modelled space; exact duplicates are modelled (has_dup) and generated',
                    'coerced number texts are a function of the value only for integer literals within [-2^63, 2^64) and short decimals; the harness '
                    'stays inside that space where the target is a string',
                    'strings in documents are valid UTF-8 (the typed route is not restricted)'],
    'search': [(1001, 'quick'), (1002, 'thorough')],
    'shard_timeout': 900,
}

CHECK = {
    'text': 'Theorems for ALL document trees and ALL Spec values: the model of strict decoding followed by (*Spec).validate() accepts a document iff '
            'it decodes (only known members, well-typed) to a Spec satisfying the declarative predicate WF transcribed from the property text '
            '(accepts_iff_WF, validate_iff_WF); it never panics (accepts_total, validate_total); every single defect of 22 kinds, at the spec level, at '
            'any device of any number of devices and at any element of any list, makes the Spec not WF and hence rejected with an error '
            '(single_defect_rejects over the inductive Defect with one position-quantified constructor per kind, unknown_key_rejects for any object of the document tree, duplicate_key_rejects for two members of one name in any object); the oracle wf_b decides WF '
            '(wf_b_iff). The model is tied to the code on every run: well-formed Specs over all pairs of the 32 optional fields, boundary values, one '
            'defect of each kind at every position, and a malformed-document stream, each as JSON and YAML through cdi.ReadSpec, '
            'Cache.Refresh+GetErrors and (typed) Cache.WriteSpec, plus cdi.ParseSpec\'s decoded value against the model decoder.',
    'note': 'Full from the document tree inward; the bytes -> tree layer (yaml / json scanners) is tied by execution only. Trusted: Coq kernel + '
            'vm_compute; harness generators and printers. Version rules reuse C06 (required_exact). No axioms.',
    'technique': 'Coq proof (refinement of a code-shaped validator to a declarative well-formedness predicate, general defect lemmas) + differential '
                 'correspondence on real files via vm_compute',
}
