"""Runner configuration (CONF) and MANIFEST entry (CHECK) of property C16."""

CONF = {
    'judge': 'CDI.Judge16.judge16',
    'trusted': ['path/filepath (Clean, Join, Ext, Base, Dir) is modelled rather than verified; the models are corresponded on generated paths',
                'directory-tree snapshots (sha256 of file contents) taken by the harness before/after each operation'],
    'assumptions': ['scenario directories live under a scratch root; no other process touches them during a scenario'],
    'search': [(1001, 'thorough')],
}

CHECK = {
    'text': 'Theorems: for every valid vendor and class and EVERY transient id the generated names are one normal path component '
            '(spec_name_single_component, transient_name_single_component), and joining a single component (with or without the default extension) onto any '
            'directory spelling yields, in Clean\'s normal form, the directory\'s components extended by exactly that component (join_confined, '
            'join_confined_ext); filepath.Clean is idempotent for every path (clean_idempotent, via a normal-form invariant of the component stack) and therefore write and remove use the SAME path for every directory list and every name (write_path_eq_remove_path); a file of the highest priority wins for every device it defines unless a file of the same directory defines it too (resolves_to_written, with C01). The path models and the '
            'write/refresh/remove behaviour are tied to the code by real-directory scenarios with tree snapshots: exactly one file changes, directly inside '
            'the cleaned last directory, only ancestors of it are created, devices resolve to it at the highest priority, removal deletes exactly it, '
            'removing a missing name succeeds.',
    'note': 'Trusted: Coq kernel + vm_compute; harness snapshots; filepath modelled and corresponded. No axioms.',
    'technique': 'Coq proof (strings, component-stack model of filepath.Clean) + differential correspondence on real directory trees via vm_compute',
}
