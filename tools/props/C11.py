"""Runner configuration (CONF) and MANIFEST entry (CHECK) of property C11."""

CONF = {
    'judge': 'CDI.Judge11.judge11',
    'trusted': ['the inotify/fsnotify event rules (CDI.Watch.op_effect, survives) are observed on every run (event-table cases under a bare '
                'fsnotify.Watcher), not proved; kernel inotify and fsnotify 1.5.1 themselves are exercised, not modelled beyond these rules',
                'real timing is explored at run time (random pacing, bursts, bursts while the cache lock is held); the theorem quantifies over all '
                'interleavings of the machine\'s atomic transitions',
                'the verifEvent hook (build tag verif) reports the filter decisions; a fresh cache built by the harness after the history is the reference'],
    'assumptions': ['configured Spec directories are not nested and are never renamed (a rename disagrees: notes/audit/DEFECT-C11-dir-renamed-away.md); a directory which is a '
                    'symbolic link is created and removed together with the directory it leads to (replacing the link alone disagrees: DEFECT-C11-symlinked-dir-retarget.md); '
                    'files are not modified through a second hard link or a symlink target',
                    'the inotify queue does not overflow (needs more than 16384 undelivered events; IN_Q_OVERFLOW is ignored by the code: notes/audit/DEFECT-C11-queue-overflow.md)',
                    'update()+refresh() of one handler run / query is atomic with respect to the creation and population of a directory (a directory missing at '
                    'watcher.Add is not populated before the scan of the same refresh); false of the code in a window of 10-100 microseconds: known finding '
                    'C11/add-scan-window, theorem C11_convergence_refuted_nonatomic_refresh; the harness populates a directory it created 2 ms later at the '
                    'earliest unless it holds the cache lock, except in the one stream that targets the window (its failures are reported as KNOWN-FINDING)',
                    'no other process touches the scenario directories during a history'],
    'search': [(1101, 'quick'), (1102, 'thorough')],
    'harness_timeout': 2400,
    'shard_timeout': 900,
}

CHECK = {
    'text': 'runtime-supported: theorem over the state machine under the stated event rules; rules and timing observed, not proved. '
            'Theorems (Coq, no axioms) over the watcher machine {file system; kernel watches; tracked map; dirErrors; kernel and channel event queues; cached view per '
            'directory} with transitions file-system operation / fsnotify read / event handling (filter, update, refresh) / query (refreshIfRequired) / extra event: '
            'invariants I0-I5 hold initially and are preserved by every transition (C11_invariants_*), hence for EVERY finite execution, i.e. every pacing, '
            'when both queues are empty a query answers (devices with defining file, files and directories in error) like a freshly built cache (C11_convergence), '
            'and the queues do empty after |queues| deliveries once the operations cease (C11_eventual_convergence). The pinned code\'s variants (Create not in the '
            'mask; update() marking removed directories after the re-add loop) and a mask without Rename are refuted by witness histories (C11_convergence_refuted_*), '
            'and so is the code as it stands once file-system operations may fall between update() and refresh() of one handler run '
            '(C11_convergence_refuted_nonatomic_refresh; observed on the implementation as open known finding C11/add-scan-window). '
            'Tie to the code on every run: (i) each operation kind under a bare fsnotify.Watcher against the rule table, (ii) random histories at random pacing '
            'against a real auto-refresh cache without any Refresh call, polled until equal to a fresh cache (oracle) and compared with the machine\'s final answer '
            '(correspondence), (iii) the filter decisions logged by the verifEvent hook against the model\'s filter.',
    'note': 'Not modelled: inotify queue overflow, directory renames, nested configured directories, chmod, modification through other hard links / symlink '
            'targets, the window between Add and scan inside one refresh (update+refresh is one atomic transition; what goes wrong in that window is the known finding '
            'C11/add-scan-window). Operations covered: create+write, empty create, '
            'rewrite, replace by rename, move in, hard link, symlink (event table only), rename to Spec and non-Spec names, move out, remove; directory missing at start, '
            'created later, removed, re-created; directories configured in non-clean spellings, twice, or as symbolic links; definitions that change under an unchanged '
            'device name (tag); every query function as the first query after an unannounced appearance; Cache.WriteSpec / RemoveSpec as sources. Refresh as a function of the scanned view (priority, same-directory conflicts, files in error) is part of the model and '
            'corresponded against fresh caches. Trusted: Coq kernel + vm_compute; harness; observed event rules.',
    'technique': 'Coq proof (invariants of a state machine over all interleavings) + observed inotify/fsnotify rule table + randomized-pacing convergence runs judged by vm_compute',
}
