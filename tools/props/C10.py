"""Runner configuration (CONF) and MANIFEST entry (CHECK) of property C10."""

CONF = {
    'judge': 'CDI.Judge10.judge10',
    'trusted': ['fault injection for CreateTemp and rename failures: a writer thread without CAP_DAC_OVERRIDE / CAP_FOWNER in a directory without write permission and in a sticky directory holding somebody else\'s file',
                'POSIX rename(2) rebinding a directory entry atomically and a read of an unmodified inode returning its bytes are the OS assumptions '
                'built into the model (AtomicWrite.step); they are exercised, not proved, by the crash-point and concurrent-reader runs',
                'strace -f output parsing and the projection of system calls on the Spec directory to model operations (harness c10.go): stat/mkdirat on the '
                'directory path -> MkdirAll, openat for writing -> OpenW, write -> WriteChunk (bytes as transferred), close, rename*/unlink* inside the '
                'directory, failed write/rename -> Fail; read-only opens, the directory descriptor, fsync and stat calls are projected away',
                'os.CreateTemp is not modelled: the random part of the temporary name is read off the observed name (tmp_not_spec holds for every middle part)',
                'fault injection: RLIMIT_FSIZE with SIGXFSZ ignored stands for any write(2) failure after a byte prefix; a directory at the target stands for any rename failure'],
    'assumptions': ['scenario directories live under the run scratch directory; no other process touches them',
                    'strace is installed and ptrace is permitted (the harness fails, it does not pass silently, if not)'],
    'search': [(2001, 'quick'), (2002, 'thorough')],
    'harness_timeout': 1500,
    'shard_timeout': 900,
}

CHECK = {
    'text': 'Theorems over the executable inode-level directory model (names -> inode, inode -> bytes) and the program writer_ops of (*Spec).write(): for EVERY '
            'crash point (every prefix of the operation list), EVERY chunking of the write, EVERY fault (mkdir/create failure, write failure after any byte '
            'prefix with the temporary file left behind, rename failure with the temporary file unlinked), EVERY initial directory (with/without previous file): '
            'tmp_not_spec (spec.<anything>.tmp and any *.tmp is not a Spec name), atomic_publication (every Spec name shows its previous content or - the target '
            'only - the complete new content), published_immutable (an inode reachable under a Spec name is never written afterwards), reader_sees_old_or_new and '
            'reader_any_schedule (a reader that opens the target at any point and reads piecewise under ANY interleaving with the writer gets exactly old or new), '
            'failed_write_leaves_nothing_loadable, only_tmp_and_target_appear, touches_only_target. Tie to the code on every run: strace -f of a child calling '
            'Cache.WriteSpec, projected system calls = writer_ops (observed random suffix and chunk sizes) and the model run over the observed calls = the real '
            'directory afterwards; the atomic-publication and immutability predicates are evaluated on EVERY prefix of the OBSERVED sequence; crash at each '
            'verifPoint(write:<step>) hook, both encodings, with/without previous file, then the real scanSpecDirs/ReadSpec: directory = model state at that prefix, '
            'old-or-new, nothing else loadable; write failure at byte offsets via RLIMIT_FSIZE (thorough: every offset) each followed by an undisturbed shorter '
            'write into the directory as it was left; rename failure; ReadFile/ReadSpec/scanSpecDirs readers against two writers alternating two contents.',
    'note': 'Trusted: Coq kernel + vm_compute; strace parsing/projection in the harness; OS assumptions: rename atomicity, inode semantics (stated in the model, '
            'exercised by runs). Modelled, not verified: os.CreateTemp (suffix observed), os.MkdirAll (one operation). Runtime behaviour the model cannot exhibit '
            '(kernel scheduling of concurrent readers, durability after power loss / fsync ordering) is explored by the concurrent-reader runs only or out of scope. No axioms.',
    'technique': 'Coq proof (invariant over every prefix of the writer program; schedule induction for the reader) + system-level observation (strace, crash hooks, '
                 'RLIMIT_FSIZE) judged by vm_compute on the same definitions',
}
