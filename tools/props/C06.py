"""Runner configuration (CONF) and MANIFEST entry (CHECK) of property C06."""

CONF = {'judge': 'CDI.Judge06.judge06',
 'trusted': ['tools/gen_versions.py (regex translator of specs-go/version.go: version constants, validSpecVersions table, trivially false '
             'predicates)',
             'golang.org/x/mod/semver is modelled only on vX.Y.Z triples (the table entries), checked by ver_order_on_table'],
 'assumptions': ['the bodies of requiresV040..V070 are hand-modelled and corresponded; the table and predicate attachment are regenerated'],
 'search': [(1001, 'thorough')]}

CHECK = {'text': 'Theorems for all Specs: the modelled requiredVersion over the version table REGENERATED from specs-go/version.go equals the highest '
         'introduction version among the features used anywhere (required_exact, each feature characterised by an existential over spec-level and '
         "every device's edits), is invariant under every permutation of the devices (required_perm, validate_version_perm), and ValidateVersion "
         "succeeds iff the declared version is released and not lower than the minimum (version_valid_iff); the generated table equals SPEC.md's and "
         'names only modelled predicates. The hand-modelled predicate bodies are tied to the code by evaluating the model on every single feature x '
         'placement x rotation x released version, feature subsets and odd declared version strings against MinimumRequiredVersion / ValidateVersion '
         '/ cdi.ReadSpec.',
 'note': 'Trusted: Coq kernel + vm_compute; tools/gen_versions.py (regex translator); harness and Spec -> Gallina printer; semver modelled on vX.Y.Z '
         'only. No axioms.',
 'technique': 'Coq proof over a model whose version table is regenerated from source + differential correspondence via vm_compute'}
