"""Runner configuration (CONF) and MANIFEST entry (CHECK) of property C03."""

CONF = {
    'judge': 'CDI.Judge03.judge03 (corr03: Apply model = observed resulting OCI spec and outcome; oracle03: declarative postconditions of ApplySpec on the observed result)',
    'trusted': ['runtime-tools generate (AddMultipleProcessEnv, RemoveDevice, AddDevice, AddLinuxResourcesDevice, RemoveMount, AddMount, hooks, AddProcessAdditionalGid) '
                'is modelled rather than verified, corresponded on every case',
                'path/filepath.Clean modelled (Paths.v), sort.Stable characterised by sortedness + per-depth order (no model of Go\'s algorithm)',
                'lstat of host device nodes enters as an explicit oracle argument; the harness creates real nodes with mknod and tells the model their type/major/minor',
                'projection of the OCI spec onto the touched part + JSON image of the rest (harness/cmd/vharness/ociterm.go)'],
    'assumptions': ['nil and empty sections of the OCI spec are identified; an absent Process behaves like uid = gid = 0'],
    'search': [(1001, 'thorough')],
    'shard_timeout': 900,
}

CHECK = None
