"""Runner configuration (CONF) and MANIFEST entry (CHECK) of property C03."""

CONF = {
    'judge': 'CDI.Judge03.judge03 (corr03: Apply model = observed resulting OCI spec and outcome; oracle03: declarative postconditions of ApplySpec on the observed result)',
    'trusted': ['runtime-tools generate (AddMultipleProcessEnv, RemoveDevice, AddDevice, AddLinuxResourcesDevice, RemoveMount, AddMount, hooks, AddProcessAdditionalGid) '
                'is modelled rather than verified, corresponded on every case',
                'path/filepath.Clean modelled (Paths.v), sort.Stable characterised by sortedness + per-depth order (no model of Go\'s algorithm)',
                'lstat of host device nodes enters as an explicit oracle argument; the harness creates real nodes with mknod and tells the model their type/major/minor',
                'projection of the OCI spec onto the touched part + JSON image of the rest (harness/cmd/vharness/ociterm.go)'],
    'assumptions': ['nil and empty sections of the OCI spec are identified; an absent Process behaves like uid = gid = 0'],
    'search': [(1001, 'thorough')],
    'shard_timeout': 900,
}

CHECK = {
    'text': 'Theorem (apply_meets_spec) for EVERY host lstat oracle, every initial OCI spec with unique device paths and mount destinations and every valid '
            '(loaded) edit list: the model of ContainerEdits.Apply never dereferences a nil entry, succeeds exactly when every device node can be completed from '
            'its host node, and its result satisfies the whole declarative postcondition written independently of the code (device nodes replace by container path, '
            'host type/major/minor, process uid/gid defaults, cgroup allow rules with default rwm; mounts replace by destination and are THE stable sort by depth - '
            'sortedness plus per-depth order determine the list (stable_sort_unique), so Go\'s algorithm is not modelled; hooks appended per stage; GIDs without '
            'duplicates and never 0; RDT replaced; uid/gid/rest unchanged, untouched sections unchanged (frame)); env_post (every variable named by the edits defined exactly once with the value '
            'of its last edit, all other entries kept in order) holds for EVERY initial env incl. existing definitions, duplicates and entries without = '
            '(env_post_holds), while the dependency\'s generator alone duplicates a variable the OCI env already defines (generator_alone_refuted: the reason for '
            'dropEnv, repaired defect D19, formerly known finding C03/env-existing-name). The model (incl. the runtime-tools generator calls and fillMissingInfo) '
            'is tied to the code by evaluating it in Coq on generated OCI specs x edit lists x real device nodes created with mknod against ContainerEdits.Apply, and '
            'the declarative postcondition is evaluated on the OBSERVED result as the oracle.',
    'note': 'Trusted: Coq kernel + vm_compute; harness projection of the OCI spec (touched part + JSON image of the rest); runtime-tools generate calls, '
            'filepath.Clean and lstat are modelled (the latter as an explicit oracle argument) and corresponded. No axioms.',
    'technique': 'Coq proof (closed form of Apply by induction over edit lists, insertion sort = unique stable sort, index-cache invariant for env) + differential correspondence via vm_compute',
}
