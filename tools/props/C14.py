"""Runner configuration (CONF) and MANIFEST entry (CHECK) of property C14."""

CONF = {
    'judge': 'CDI.Judge02.judge02 (corr02: Inject model = observed result of InjectDevices; oracle02: declarative composition / unresolved-request rule / cache unchanged and repeatable)',
    'trusted': ['filepath.Walk order (byte-lexical), filepath.Clean/Join/Ext modelled (Paths.v) and corresponded',
                'the harness classifies generated files as loadable / failing by construction; a misclassification shows up as a correspondence mismatch',
                'Go map semantics (insert, delete, lookup) modelled by association lists'],
    'assumptions': ['scenario directories live under a scratch root; no other process touches them during a scenario',
                    'in automatic refresh mode the harness polls (deadline 3 s) until the cache answers like a freshly built one; timing itself is property C11'],
    'search': [(1001, 'thorough')],
    'shard_timeout': 900,
}

CHECK = {'text': 'Theorem (history_repeatable) for every history of injections of any length, each step with its own host oracle: the k-th result equals the declarative result computed from the loaded files and the host oracle of that step (no memory across injections; unspecified node attributes come from the host oracle of that application: attributes_from_current_host, via C03). That the real code leaves the cached Specs and devices untouched is decided by the tie: histories of 2-5 injections with the host device nodes re-created with other type/major/minor in between (mknod), the JSON image of every cached Spec and device through the query API compared with the one before the first injection after every step, every cached Spec written back through the library and read back equal, equal requests giving equal results.', 'note': "Trusted: as C02/C03. Partial by construction: in a pure model the cache is not an output of injection, so 'cache unchanged' and 'write-back unchanged' are established by the correspondence runs (cache image, write-back), not by a theorem. No axioms.", 'technique': 'Coq proof (history theorem over the inject model) + differential correspondence on injection histories with re-created host nodes via vm_compute'}
