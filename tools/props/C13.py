"""Runner configuration (CONF) and MANIFEST entry (CHECK) of property C13."""

CONF = {
    'judge': 'CDI.Judge01.judge01 (corr01: Cache model = observed query answers; oracle01: declarative precedence rule and listings on the observed answers)',
    'trusted': ['filepath.Walk order (byte-lexical), filepath.Clean/Join/Ext modelled (Paths.v) and corresponded',
                'the harness classifies generated files as loadable / failing by construction; a misclassification shows up as a correspondence mismatch',
                'Go map semantics (insert, delete, lookup) modelled by association lists'],
    'assumptions': ['scenario directories live under a scratch root; no other process touches them during a scenario',
                    'in automatic refresh mode the harness polls (deadline 3 s) until the cache answers like a freshly built one; timing itself is property C11'],
    'search': [(1001, 'thorough')],
    'shard_timeout': 900,
}

CHECK = {'text': 'Theorems over the same cache model with the fault vocabulary (files that fail to load for any reason; directories missing, unscannable, being a file): how a name resolves depends only on the loaded files that define it (isolation), resolution is the precedence rule whatever else is in the directories (resolution_is_the_rule), missing/unscannable directories are skipped without stopping the scan, the error report contains EXACTLY the failing files and the files in a same-priority conflict (errors_exact, from a closed form of the error list over the scan), an explicit refresh returns an error iff the report is non-empty (refresh_fails_iff), and the report is a function of the current content only, so an entry disappears at the first refresh after repair (memoryless). Tied to pkg/cdi by fault-placement layouts (syntax and semantic errors, empty files, dangling links, links to directories, directories missing / a file / with a non-directory ancestor, repeated) in every position, with later repairs, in manual and automatic refresh mode; the oracle evaluates on the OBSERVED answers: resolution of every probed name, error keys = failing files + files in a same-priority conflict exactly, Refresh() error iff that set is non-empty.', 'note': 'Trusted: as C01. Permission faults cannot be produced as root; files vanishing between listing and reading are represented by dangling links. No axioms.', 'technique': 'Coq proof (isolation/monotonicity lemmas over the scan fold) + differential correspondence with fault placement on real directories via vm_compute'}
