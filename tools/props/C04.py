"""Runner configuration (CONF) and MANIFEST entry (CHECK) of property C04."""

CONF = {
    'judge': 'CDI.Judge02.judge02 (corr02: Inject model = observed result of InjectDevices; oracle02: declarative composition / unresolved-request rule / cache unchanged and repeatable)',
    'trusted': ['filepath.Walk order (byte-lexical), filepath.Clean/Join/Ext modelled (Paths.v) and corresponded',
                'the harness classifies generated files as loadable / failing by construction; a misclassification shows up as a correspondence mismatch',
                'Go map semantics (insert, delete, lookup) modelled by association lists'],
    'assumptions': ['scenario directories live under a scratch root; no other process touches them during a scenario',
                    'in automatic refresh mode the harness polls (deadline 3 s) until the cache answers like a freshly built one; timing itself is property C11'],
    'search': [(1001, 'thorough')],
    'shard_timeout': 900,
}

CHECK = {'text': 'Theorems for every cache content, OCI spec and request list: if some requested name does not resolve (by the declarative rule: unknown, malformed, conflict-removed ...) the result is exactly the misses in request order with repetitions, an error, and the OCI spec as handed in (inject_unresolved via inject_refines_spec); a nil OCI spec is refused with all names (inject_nil). Tied to pkg/cdi by requests mixing resolvable, unknown, malformed, shadowed and conflict-removed names with repetitions on populated and nil OCI specs; the OCI spec is compared before/after through its full projection + JSON image of the untouched rest.', 'note': 'Trusted: as C02. No axioms.', 'technique': 'Coq proof (refinement of the request walk to the declarative filter) + differential correspondence via vm_compute'}
