"""Runner configuration (CONF) and MANIFEST entry (CHECK) of property C08."""

CONF = {
    'judge': 'CDI.Judge08.judge08 (corr08: panic class of the parser and annotation models = observed; oracle08: nothing panicked or hung, every outcome reported)',
    'trusted': ['filepath.Walk order (byte-lexical), filepath.Clean/Join/Ext modelled (Paths.v) and corresponded',
                'the harness classifies generated files as loadable / failing by construction; a misclassification shows up as a correspondence mismatch',
                'Go map semantics (insert, delete, lookup) modelled by association lists'],
    'assumptions': ['scenario directories live under a scratch root; no other process touches them during a scenario',
                    'in automatic refresh mode the harness polls (deadline 3 s) until the cache answers like a freshly built one; timing itself is property C11'],
    'search': [(1001, 'thorough')],
    'shard_timeout': 900,
}

CHECK = None
