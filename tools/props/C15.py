"""Runner configuration (CONF) and MANIFEST entry (CHECK) of property C15."""

CONF = {'judge': 'CDI.Judge15.judge15',
 'trusted': ["byte-level modelling of Go's rune iteration; the k8s regular expressions are modelled by explicit matchers, corresponded against the "
             'real matcher through the verif export hook'],
 'assumptions': ['Go map iteration order is irrelevant to the property: ParseAnnotations results are compared grouped per key and sorted'],
 'search': [(1001, 'thorough')]}

CHECK = {'text': 'Theorems for all plugin names, device ids, device lists and maps: a returned key is under the CDI prefix and is a legal Kubernetes '
         'annotation key (key_is_legal, via a model of the k8s qualified-name matcher), a non-empty value splits back to exactly the requested '
         'devices (value_roundtrip), UpdateAnnotations is all-or-nothing, adds exactly one unused key and never overwrites (update_fail_unchanged, '
         'update_adds_one, never_overwrites), ParseAnnotations returns exactly the CDI-prefixed entries and fails with empty results iff a device is '
         'unqualified (parse_ok_iff, parse_unqualified_fails), update-then-parse round trip; nothing panics. Tied to pkg/cdi/annotations.go and to '
         'the real k8s matcher (through the verif export hook) by evaluating the model in Coq on generated keys (lengths 58..67, every character '
         'class per position), values, maps.',
 'note': "Trusted: Coq kernel + vm_compute; harness (grouping of ParseAnnotations' flat device list per key, sorting of maps); byte-level modelling "
         'of rune iteration; the three k8s regular expressions are modelled by explicit matchers and corresponded. No axioms.',
 'technique': 'Coq proof (induction over strings/lists/association lists) + differential correspondence via vm_compute'}
