"""Runner configuration (CONF) and MANIFEST entry (CHECK) of property C12."""

CONF = {
    'judge': 'CDI.Judge12.judge12 (corr12: every exported *Cache method is an entry point of the regenerated lock model; oracle12: child '
             'process completed without race report / hang / crash, every observed query result equals the result for state A or for state B)',
    'race': True,
    'trusted': [
        'tools/gen_locks.py + harness/cmd/locksum (go/ast + go/types translator of pkg/cdi into lock/access paths): sees accesses to the fields of '
        'Cache and watch through any expression of those types, through the parameters bound at the call sites (m = &c.Mutex, refresh = c.refresh, '
        'dirErrors = c.dirErrors) and to the package variables specValidator / defaultCache; does NOT see accesses through second-level aliases '
        '(elements of the maps such as *Device, *Spec and error slices handed to callers) — these objects are immutable after construction, which the '
        'race detector runs check',
        'translator abstractions: all *Cache values are one abstract cache; loops are lock-neutral (checked) and represented by 0/1 iterations '
        '(0/1/2 when an iteration takes the cache mutex); accesses to a freshly allocated Cache before the first go statement / return of the '
        'allocating function are thread-local; sync.Once.Do is a critical section of the once and a blocking operation for its caller; function '
        'literals passed to other packages (filepath.Walk) run synchronously; callbacks into user code (specValidator.Validate, user options) '
        'do not call back into the cache; panics are not paths',
        'Go sync.Mutex / sync.RWMutex / sync.Once give mutual exclusion and happens-before as the Go memory model states',
        'the Go race detector (built with -race) and fsnotify/inotify in the schedule exploration; POSIX rename(2) atomicity in the snapshot scenario',
    ],
    'assumptions': [
        'threads are goroutines calling the exported operations in any order plus the watcher goroutines; every thread runs a sequence of (pieces of) '
        'the generated paths; goroutines exist from the start in the model (a superset of the real interleavings)',
        'lock policy (which mutex guards what, rank order getDefaultOnce < Cache.Mutex < validatorLock < verifLogLock) is stated in harness/cmd/locksum/main.go; '
        'a mutex or modified package variable outside the policy stops the translator',
        'analysed with the build tag verif (the harness build); without the tag verifEvent/verifPoint are empty',
    ],
    'search': [(2001, 'thorough')],
    'search_budget': 900,
    'harness_timeout': 1700,
}

CHECK = {
    'text': 'Theorems (Coq, any number of threads, every interleaving, non-reentrant mutexes incl. RWMutex and Once): paths accepted by the executable '
            'checker wl give data-race freedom (race_free), atomic critical sections and snapshot consistency over whole executions '
            '(critical_sections_atomic, snapshot_consistency), no lock-induced deadlock under rank order with no blocking while a mutex is held '
            '(single_lock_no_deadlock, block_holds_nothing), releases by holders only. The paths of every exported function/method of pkg/cdi, of the '
            'default-cache Once body and of the watcher goroutine are REGENERATED from the source by a go/types translator on every run and the instance '
            'is re-checked by vm_compute: all paths well-locked (cache_well_locked), every public operation reads specs/devices/errors within one '
            'critical section (queries_one_section), refresh swaps the three indexes together and never modifies a published map. The harness, built '
            'with -race, runs N goroutines issuing all public operations against one cache with background refreshes in child processes (race report, '
            '20 s watchdog for deadlock, crash = oracle failure with the seed) and checks that while a Spec file flips atomically between A and B every '
            'ListDevices / InjectDevices / GetVendorSpecs result equals A\'s or B\'s completely; it also cross-checks that every exported *Cache method '
            'is an entry point of the regenerated model.',
    'note': 'Proof over the lock-discipline abstraction regenerated from source; the translator (what it sees is listed in trusted_base) and the Go '
            'memory model are trusted; real schedules are explored at run time under the race detector (quick: ~15 s, thorough: ~5 min). No axioms.',
    'technique': 'Coq proof (invariant over an interleaving semantics) + source-to-model translator re-checked by vm_compute + race-detector / '
                 'watchdog / snapshot-consistency schedule exploration in child processes',
}
