"""Runner configuration (CONF) and MANIFEST entry (CHECK) of property C18."""

CONF = {
    'judge': 'CDI.Judge18.judge18',
    'trusted': [
        'tools/gen_schema.py (schema/*.json -> SchemaGen.v) and tools/gen_layout.py (specs-go/config.go -> LayoutGen.v: field types, json/yaml tag names, omitempty); '
        'the encoder doc_of_spec is tied to the layout by encoder_follows_layout / types_follow_layout and to encoding/json by comparing json.Marshal(spec) with it on every case',
        'lib_ok / lib_annots_ok state the consequences of library validity the proof uses (at least one device, no null list entries, k8s-valid annotations); that the '
        'library implies them is a theorem (wf_lib_ok: WF s -> lib_ok s /\\ lib_annots_ok s, from the C05 model of Spec.validate) and is also checked on every accepted Spec of the run',
        'the file routes (Cache.WriteSpec, cdi.ReadSpec, ValidateFile on .json / .yaml) pass through the unmodelled text layers and are established by execution',
    ],
    'assumptions': [
        'hook timeouts within 0..2^32-1 (proviso of the property; C18_timeout_hypothesis_needed_refuted shows it is needed)',
        'Go int is 64 bits wide',
    ],
    'search': [(1001, 'thorough')],
}

CHECK = {
    'text': 'Theorem over ALL Spec values: lib_ok s (at least one device, no null deviceNodes/hooks/mounts entry) -> every integer within the range of its Go type -> hook '
            'timeouts within 0..2^32-1 -> validate SchemaGen.builtin (doc_of_spec s) = true, proved compositionally (one lemma per struct, members one by one, lists by '
            'Forall) against the schema REGENERATED from schema/*.json and the encoder tied to the layout REGENERATED from specs-go/config.go, so a schema or struct change '
            'that breaks the statement breaks the proof; corollaries for the SetSpecValidator route and, with k8s-valid annotations, for every entry point on the written '
            'documents; timeout proviso shown necessary. Tie: random library-valid Specs with the numeric extremes of every integer field through Validate, WriteSpec / '
            'ReadSpec with and without SetSpecValidator(BuiltinSchema()), ValidateFile / ValidateData on the written .json / .yaml; json.Marshal image = model encoder; the '
            'boolean body of the theorem is evaluated on every generated Spec (search when the proof breaks). required_members_always_encoded: no member the schema requires is omitempty in the regenerated struct layout.',
    'note': 'Full at the value / document level; the file routes by execution. lib_ok is stated explicitly (to be derived from the C05 model). Trusted: Coq kernel + '
            'vm_compute; the two translators; harness. No axioms.',
    'technique': 'Coq proof per struct over regenerated schema and layout + differential correspondence via vm_compute',
}
