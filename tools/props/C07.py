"""Runner configuration (CONF) and MANIFEST entry (CHECK) of property C07."""

CONF = {'judge': 'CDI.Judge07.judge07 (corr07: model = observed; oracle07: grammar decision procedures on observed outputs)',
 'trusted': ['UTF-8 decoding never maps a byte >= 0x80 to an ASCII rune (the model is byte-level); swept by the harness'],
 'assumptions': ['Go strings are byte strings; for ... range decodes UTF-8'],
 'search': [(1001, 'thorough')]}

CHECK = {'text': 'Theorems over all byte strings: the parser model succeeds iff the input is vendor/class=name in the grammar (parse_ok_iff, parse_err_iff), '
         'never panics, honours the error contract, recomposes and round-trips (compose_parse, QN_unique). The model is tied to pkg/parser by '
         'evaluating it inside Coq on every string up to length 3 (4 thorough) over a 12-symbol alphabet, on all 256 bytes at every position of '
         'every part, and on random mutated names, against the real functions; an independent brute-force decision procedure for the grammar (proved '
         "equivalent) is evaluated on the implementation's outputs as the oracle.",
 'note': "Trusted: Coq kernel + vm_compute; the Go harness and its printer; byte-level modelling of Go's rune iteration (bytes >= 0x80 never are "
         'allowed characters; swept). No axioms (Print Assumptions: closed under the global context).',
 'technique': 'Coq proof (induction over strings, 256-way byte case analysis) + differential correspondence model/implementation via vm_compute'}
