"""Runner configuration (CONF) and MANIFEST entry (CHECK) of property C20."""

CONF = {
    'judge': 'CDI.Judge20.judge20',
    'trusted': [
        'fsnotify and kernel inotify are not modelled: the configure machine delivers an accepted event atomically (update + refresh right '
        'after the directory change); the harness polls with deadlines until the implementation has caught up (asynchrony is C11\'s subject)',
        'descriptor exhaustion is produced with RLIMIT_NOFILE lowered to the lowest free descriptor number of the child process; the model\'s '
        'fd_ok flag stands for "a new descriptor can be had" (inotify_init1 and opening a directory both fail without one)',
        'resource counts are read from /proc/self/fd, /proc/self/fdinfo/* (inotify wd lines) and runtime.NumGoroutine in the child; the cost '
        'of one watcher (descriptors, goroutines) is calibrated per child process',
        'cdi.VerifTracked (verif hook) exposes watch.tracked and whether watch.watcher is non-nil; cdi.DefaultSpecDirs is set by the child',
    ],
    'assumptions': [
        'explored histories keep the shortage discipline: while RLIMIT_NOFILE is lowered only the (re)configuration itself runs '
        '(no directory change, query or Refresh) — outside it the model refutes the property (C20_observe_equiv_new_refuted_without_discipline)',
        'no same-directory device conflicts, nested or regular-file Spec directories in the generated directory contents (precedence between '
        'directories is part of the machine: the definition in the directory listed last wins; same-directory conflicts are C01)',
        'no reconfiguration while a watch event is pending (disagrees: notes/audit/DEFECT-C20-straggler-direrrors.md, history behind a switch)',
        'nothing else touches the per-history scratch directories',
    ],
    'search': [(2001, 'thorough')],
    'harness_timeout': 2400,
    'shard_timeout': 900,
}

CHECK = {
    'text': 'Theorems over the configure machine (Configure.v: option application, watch.stop/setup/start/update, refreshIfRequired, event delivery, '
            'default cache), for ALL histories of New/Configure/SetFdShortage/FsOp/Query/Refresh/DefaultConfigure/DefaultGet: resources_bounded (at most one '
            'open watcher and one watcher goroutine after any history, none in manual mode); configure_equiv_new / create_equiv_new (after any history a '
            '(re)configured or newly created cache is bisimilar, for every continuation, to a cache created in a fresh process with the options that took '
            'effect, on the same contents and descriptor situation); observe_equiv_new (at any point of a disciplined history: directories, mode, tracked '
            'keys and the settled answer equal those of a new cache on the current contents) with its refuted twin outside the shortage discipline; '
            'shortage_still_answers (nil watcher + auto-refresh => every query rescans); auto_answers_current (an auto-refresh cache answers every query '
            'with the view of exactly its configured directories on the current contents); default_cache_same (cdi.Configure/GetDefaultCache histories equal '
            'NewCache/Cache.Configure histories, configured before or after first use). Tie: option histories of 1-40 (re)configurations on one cache and on '
            'the package-level default cache, one fresh child process each, directory changes interleaved, RLIMIT_NOFILE exhaustion around random '
            '(re)configurations; per observation the machine\'s prediction (directories, tracked map, watcher present, devices, error keys, open watchers, '
            'goroutines, inotify watches) must equal what the child reads from the API, cdi.VerifTracked, /proc/self/fd, fdinfo and runtime.NumGoroutine, and '
            'the observed values must equal a fresh cache\'s answers, stay within one watcher\'s worth of resources whatever the history length, be zero in '
            'manual mode, react to probe files in exactly the final directories iff auto-refresh is on, and never react in former directories.',
    'note': 'runtime-supported: theorem over the configure machine; descriptor, watch and goroutine counts and the reaction to probe files are observed on the '
            'implementation, asynchronous delivery is polled with deadlines (not proved: see C11). Side observation (outside C20\'s statement, reproduced on the '
            'implementation): an event handled while descriptors are exhausted empties an auto-refresh cache and neither queries nor Refresh() rescan it until '
            'the next event. No axioms.',
    'technique': 'Coq proof (state machine, invariants by induction over operation lists, bisimulation with a freshly created cache) + correspondence on '
                 'histories run in child processes (RLIMIT_NOFILE, /proc resource counts) via vm_compute',
}
