"""Runner configuration (CONF) and MANIFEST entry (CHECK) of property C19."""

CONF = {
    'judge': 'CDI.Judge19.judge19 (corr19: Cli.v rendering of the library\'s answers = observed stdout / exit status; '
             'oracle19: parsers of Cli.v on the observed stdout = the library\'s answers, exit status per the contract)',
    # the runner builds these from the repository on every run and passes them as VERIF_BIN_CDI / VERIF_BIN_CDI_VALIDATE
    'repo_bins': {'cdi': 'cmd/cdi', 'cdi-validate': 'cmd/validate'},
    'trusted': [
        'the harness computes the library\'s answers in its own process with the options the command uses '
        '(cdi.NewCache(cdi.WithSpecDirs(...)), the schema validator of --schema installed with cdi.SetSpecValidator) and decodes printed '
        'objects (verbose listings, injected OCI Specs) with the inverse of the encoder the command uses (encoding/json, yaml.v3) to canonical '
        'JSON (null/empty members dropped, keys sorted)',
        'not modelled, exercised only: cobra flag parsing, encoding/json and yaml.v3 text of marshalled objects, error message texts '
        '(only the file paths they are listed under and their number are compared), filepath.Match (its observed results are part of the case)',
        'tools/gen_cli.py reads from cmd/cdi/cmd/cdi-api.go which cache `resolve` consults and whether `specs` honours its vendor list '
        '(coq/gen/CliGen.v); the model follows these two facts',
    ],
    'assumptions': [
        'scenario directories live under a scratch root and nothing else touches them during a scenario',
        'the default Spec directories /etc/cdi and /var/run/cdi do not exist on the host (else the cases that involve them are skipped)',
        'an inotify instance can be obtained (the command and the harness both retry on shortage)',
        'populated default directories are exercised inside a private mount namespace (unshare -m, tmpfs over /run and /etc in that namespace only); where that is not permitted the stream is skipped and the evidence says so (populated_default_dirs)',
    ],
    'search': [(1001, 'thorough')],
    'harness_timeout': 1500,
    'shard_timeout': 600,
}

CHECK = {
    'text': 'Mostly differential. Theorems (deliberately thin): for EVERY library view whose names and paths are free of newlines (vendors also of '
            'quote and comma, classes of space; proved to hold for valid vendor/class names and qualified device names, C07 grammar) the text the '
            'model prints for devices, vendors, classes, Spec files, Spec directories and the error listing (for any message texts), sent through '
            'the byte level, parses back to exactly the library\'s answer (cli_lists_exactly, with a refutation for names containing a newline); '
            'with --spec-dirs the exit status is non-zero iff the library reports cache errors and the error listing replaces the output exactly then '
            '(cli_exit_iff_errors, cli_shows_errors_iff_exit); inject hands the library exactly the listed devices matched by some pattern, each once '
            '(inject_selection_mem/_nodup); cmd/validate exits non-zero iff a document fails or the schema does not load and names exactly the valid '
            'documents (validate_exit_iff, validate_reports_valid). Tie: the cdi and validate binaries are built from the repository on every run and '
            'executed on generated Spec directory populations (shadowing, conflicts, invalid files, missing directories, unsorted and repeated '
            'directory lists, schema builtin/none/file) with every listing sub-command and output format, inject (files, stdin, overlapping and '
            'malformed patterns), resolve, and cmd/validate on valid / invalid / absent documents; stdout and exit status are compared in Coq with '
            'the model\'s rendering of the LIBRARY\'s answers computed in the harness on the same directories (correspondence) and, independently of '
            'the renderers, the parsed stdout with the library\'s answers (oracle); printed objects are compared as canonical JSON.',
    'note': 'Trusted: Coq kernel + vm_compute; the harness (library calls, decoding of printed objects, canonical JSON); cobra, encoding/json, yaml.v3, '
            'filepath.Match by execution only; error texts never compared. Partial: the proof part is small by design, the decisive evidence is '
            'differential execution of the built binaries. Known findings on the current tree: `cdi resolve` ignores --spec-dirs; '
            '`cdi specs <vendors>` ignores its vendor list. No axioms.',
    'technique': 'Coq proof (render/parse round trips over strings) + differential execution of the built cdi and validate binaries against the '
                 'library on real directories, judged in Coq via vm_compute',
}
