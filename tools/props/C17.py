"""Runner configuration (CONF) and MANIFEST entry (CHECK) of property C17."""

CONF = {
    'judge': 'CDI.Judge17.judge17',
    'trusted': [
        'tools/gen_schema.py (translator of schema/schema.json + schema/defs.json to a closed term of CDI.Schema.schema: $ref resolution across files, '
        'siblings of $ref dropped, draft-07 keywords outside the modelled fragment become SUnsupported nodes, names outside the vocabulary dropped); the same '
        'code translates the variant schemas the harness loads with schema.Load(path), so the translator is exercised against gojsonschema on every run',
        'gojsonschema is NOT modelled: that it implements the draft-07 semantics [Valid] for the modelled keywords is established by differential execution '
        'only (builtin schema and 8 variant schemas x generated documents x every entry point)',
        'the JSON and YAML text layers (encoding/json, sigs.k8s.io/yaml + yaml.v2) are not modelled; a YAML text the harness cannot read back as the same '
        'document (checked with its own UseNumber decode) is not fed to the YAML entry points',
        'the k8s qualified-name matcher and strings.ToLower on annotation keys are modelled (Annotations.v, go_lower) and corresponded',
        'Go regexp semantics of the pattern fragment dot{n,} / dot-plus / dot-star on valid UTF-8 keys (dot = any code point but LF) is modelled and corresponded',
    ],
    'assumptions': [
        'documents are JSON values without duplicate member names; strings are valid UTF-8',
        'integers beyond 64 bits and decimal fractions with more than 15 significant digits cannot be carried exactly by the YAML text layer and take the JSON routes only',
        'the no-op schema skips the annotation content check since fix 748fe15 (D17); the earlier behaviour is kept as C17_nop_accepts_pinned_refuted',
    ],
    'search': [(1001, 'thorough')],
    'shard_timeout': 900,
}

CHECK = {
    'text': 'Theorems over ALL schemas of the AST and ALL documents: the executable validator returns exactly the verdict of the declarative draft-07 semantics '
            '(validate_iff_Valid: type, minimum/maximum over the rationals, required, properties, patternProperties for the dot{n,} fragment, additionalProperties, '
            'items, boolean schemas); the schema REGENERATED from schema/schema.json + defs.json uses no keyword outside that fragment (builtin_in_fragment); on every '
            'document with well-formed annotations all entry points of package schema return validate builtin d (entry_points_agree; for any loaded schema '
            'entry_points_agree_any); verdicts do not depend on the encoding (encoding_invariant; the pinned defect is kept as encoding_invariant_pinned_refuted); the none '
            'and nil schemas accept (nop_accepts, nil_accepts; the unconditional reading for none is refuted and reported). Tie: generated documents (members removed / '
            'retyped at every level, numeric boundaries incl. int64 extremes, 1.0, 1e3, fractions, extra members, odd annotation keys, null entries) as JSON and block-style '
            'YAML through ValidateData/ValidateFile/ValidateReader/ReadAndValidate/ValidateType/Validate under Load(builtin|none|path), nil, and 8 variant schemas translated '
            'by the same translator and loaded from disk. A tie between the two regenerated fragments (required_members_always_encoded): every member the schema requires of an object is written by the encoder of the Go struct it is decoded into, under the same name in both encodings and also when empty, so the in-memory route sees the members the other routes see.',
    'note': 'Partial: that gojsonschema implements draft-07 for the modelled keywords is established by differential execution only (not modelled). Trusted: Coq kernel + '
            'vm_compute; tools/gen_schema.py; harness; text layers. No axioms.',
    'technique': 'Coq proof (executable validator = declarative draft-07 semantics) over a schema regenerated from source + differential correspondence against gojsonschema '
                 'incl. variant schemas via vm_compute',
}
