"""Runner configuration (CONF) and MANIFEST entry (CHECK) of property C02."""

CONF = {
    'judge': 'CDI.Judge02.judge02 (corr02: Inject model = observed result of InjectDevices; oracle02: declarative composition / unresolved-request rule / cache unchanged and repeatable)',
    'trusted': ['filepath.Walk order (byte-lexical), filepath.Clean/Join/Ext modelled (Paths.v) and corresponded',
                'the harness classifies generated files as loadable / failing by construction; a misclassification shows up as a correspondence mismatch',
                'Go map semantics (insert, delete, lookup) modelled by association lists'],
    'assumptions': ['scenario directories live under a scratch root; no other process touches them during a scenario',
                    'in automatic refresh mode the harness polls (deadline 3 s) until the cache answers like a freshly built one; timing itself is property C11'],
    'search': [(1001, 'thorough')],
    'shard_timeout': 900,
}

CHECK = {'text': "Theorem (inject_refines_spec) for every directory population, host oracle, OCI spec and EVERY request list: the model of InjectDevices on the refreshed cache equals the declarative inject_spec built from the precedence rule only; when all names resolve this is exactly ONE application (C03) of the combined list: per requested name, the spec-level edits of the file it resolves to unless an earlier requested name resolves to that file, then the device's edits (inject_is_apply_combined); every contribution stems from a requested name's resolution (provenance) and spec-level edits are contributed once per file (spec_edits_once). Tied to pkg/cdi by caches with shadowing, conflicts, several devices per file and edits of every kind (incl. device nodes completed from real host nodes) x random OCI specs x ordered selections, comparing the resulting OCI spec with the model and with apply(combined) computed from the declared resolution.", 'note': 'Trusted: as C01 and C03 (Apply model, known finding C03/env-existing-name is inside Apply and affects model and code alike). Spec identity is (priority, path). No axioms.', 'technique': 'Coq proof (walk invariant relating the seen-Spec set to the declarative first-of-its-file test; refinement) + differential correspondence via vm_compute'}
