#!/bin/bash
# usage: confirm_seed.sh <seed-dir> <package-dir-for-demo> <go test -run pattern>
# Confirms in a scratch worktree (outside /repo and /verif) that a seeded change compiles, keeps the existing suite green,
# and that its demonstration fails with the change and passes without it. Writes <seed-dir>/confirm.json.
VERIF=$(cd "$(dirname "$0")/.." && pwd)
set -u
SD=$(realpath "$1"); PKG=$2; PAT=$3
export GOFLAGS=-mod=mod GOPROXY=off GOSUMDB=off GOTOOLCHAIN=local
WT=$(mktemp -d /tmp/confirm-XXXXXX); rmdir $WT
git -C /repo worktree add -q --detach $WT HEAD || exit 2
cleanup() { git -C /repo worktree remove --force $WT 2>/dev/null; rm -rf $WT; }
trap cleanup EXIT
cp $SD/demo_test.go $WT/$PKG/zz_seed_demo_test.go
( cd $WT/$PKG && go test -count=1 -vet=off -run "$PAT" . > $WT/demo_without.log 2>&1 ); RC_WITHOUT=$?
rm $WT/$PKG/zz_seed_demo_test.go
git -C $WT apply $SD/patch.diff || { echo "patch does not apply"; exit 2; }
SUITE=$($VERIF/tools/suite.sh $WT 2>&1 | head -1)
cp $SD/demo_test.go $WT/$PKG/zz_seed_demo_test.go
( cd $WT/$PKG && go test -count=1 -vet=off -run "$PAT" . > $WT/demo_with.log 2>&1 ); RC_WITH=$?
python3 - "$SD" "$SUITE" "$RC_WITHOUT" "$RC_WITH" "$PKG" "$PAT" <<'PY'
import json,sys
sd,suite,rw,rc,pkg,pat=sys.argv[1:]
ok = suite.startswith('pass 210 fail 0') and rw=='0' and rc!='0'
json.dump({"suite_with_change":suite,"demo_without_change_rc":int(rw),"demo_with_change_rc":int(rc),"demo_package":pkg,"demo_run":pat,"confirmed":ok},open(sd+'/confirm.json','w'),indent=1)
print(sd, "CONFIRMED" if ok else "NOT CONFIRMED", suite, rw, rc)
PY
