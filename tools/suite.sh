#!/bin/bash
# usage: suite.sh <worktree>  -- runs the repository's existing test suite in that worktree, prints pass/fail counts
W=$1
export GOFLAGS= GOPROXY=off GOSUMDB=off GOTOOLCHAIN=local
OUT=$(mktemp)
for m in . ./cmd/cdi ./cmd/validate ./schema ./specs-go; do
  MF=$(cd $W/$m && gw=$(go env GOWORK 2>/dev/null); if [ -z "$gw" ] || [ "$gw" = off ]; then echo "-mod=mod"; fi)
  (cd $W/$m && go build ./... && go test $MF -json -vet=off -count=1 -timeout 25m ./...)
done > $OUT 2>$OUT.err
python3 - $OUT <<'PY'
import json,sys
p=f=0
fails=[]
for l in open(sys.argv[1]):
    try: e=json.loads(l)
    except: continue
    if e.get('Test') and e.get('Action')=='pass': p+=1
    if e.get('Test') and e.get('Action')=='fail': f+=1; fails.append(e['Package']+'::'+e['Test'])
    if not e.get('Test') and e.get('Action')=='fail': fails.append('PKG '+e['Package'])
print('pass',p,'fail',f,fails)
PY
tail -5 $OUT.err
rm -f $OUT $OUT.err
